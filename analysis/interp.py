"""Abstract interpreter over the whole-program monomorphic MIR (engines L2 / L3).

Control: a branch or loop whose condition is concrete in the abstract state is simply
followed (constant propagation with unrolling); a branch on an abstract value forks
every feasible successor up to the immediate post-dominator and joins there; a loop
whose condition stays abstract is solved by fixpoint with widening.  Calls are
analysed per call site (context sensitive; the code is recursion free, a recursion
guard fails closed).  Every panic edge met (MIR Assert, call into a panic sink, model
precondition) is an obligation: *discharged* iff it cannot fail in the abstract state
of any visit.
"""
import sys
from facts import *
from values import *
import values as V
import terms as T

sys.setrecursionlimit(20000)

ARR_LIMIT = 5000          # arrays up to this many elements are tracked element-wise


import re as _re
_SIMD = _re.compile(r'::(__m128[id]?|u?int\d+x\d+_t|poly\d+x\d+_t|float\d+x\d+_t)$')


def is_simd_type(d):
    return d['k'] == 'adt' and bool(_SIMD.search(d.get('path', '')))


class Unsupported(Exception):
    """the interpreter met something it has no model for: the analysis fails closed"""


class Diverge(Exception):
    """the current path certainly panics / never returns"""


class Budget(Exception):
    pass


PANIC_SINKS = (
    'core::panicking::', 'core::result::unwrap_failed', 'core::option::unwrap_failed', 'core::option::expect_failed',
    'core::slice::index::slice_index_fail', 'core::slice::index::slice_start_index_len_fail',
    'core::slice::index::slice_end_index_len_fail', 'core::slice::index::slice_index_order_fail',
    'core::slice::copy_from_slice_impl::len_mismatch_fail', 'core::str::slice_error_fail',
    'core::slice::<impl [T]>::copy_from_slice::len_mismatch_fail', 'core::cell::panic_already',
    'core::array::<impl [T; N]>::', 'core::intrinsics::abort', 'std::process::abort',
)


def is_panic_sink(name):
    if name.startswith('core::array::<impl [T; N]>::'):
        return False
    return name.startswith(PANIC_SINKS)


class Loc:
    """a place in abstract memory: structured (obj, path) or byte-addressed (obj, off) for raw allocations"""
    __slots__ = ('obj', 'path', 'ty', 'win', 'boff', 'viewed', 'meta', 'part')

    def __init__(self, obj, path, ty, win=None, boff=None, viewed=False, meta=None, part=None):
        self.viewed = viewed
        self.meta = meta
        self.part = part      # (byte offset, byte size): a sub-range of the bytes of the value at (obj, path)
        self.obj = obj
        self.path = path
        self.ty = ty
        self.win = win       # (start AInt, len AInt) when the place is a sub-slice of the array at path
        self.boff = boff     # byte offset (int) for raw allocations ('A', id)


class State:
    __slots__ = ('mem',)

    def __init__(self, mem=None):
        self.mem = mem if mem is not None else {}

    def copy(self):
        return State(dict(self.mem))


class Frame:
    __slots__ = ('fn', 'body', 'fid', 'depth', 'retvals', 'cmpdefs')

    def __init__(self, fn, fid, depth):
        self.fn = fn
        self.body = fn['mir']
        self.fid = fid
        self.depth = depth
        self.retvals = []


class Site:
    __slots__ = ('key', 'fn', 'kind', 'desc', 'line', 'visits', 'fails', 'why')

    def __init__(self, key, fn, kind, desc, line):
        self.key = key
        self.fn = fn
        self.kind = kind
        self.desc = desc
        self.line = line
        self.visits = 0
        self.fails = 0
        self.why = ''


class Interp:
    def __init__(self, mono, budget=3_000_000, ptr_bits=None):
        self.m = mono
        self.types = mono.types
        self.budget = budget
        self.steps = 0
        self.nframe = 0
        self.sites = {}            # panic obligations
        self.alloc_cache = {}
        self.pdom_cache = {}
        self.callstack = []
        self.models = {}
        self.ptr_bits = ptr_bits or self._ptr_bits()
        self.ub_checks = False
        self.fresh = 0
        self.trace = False
        self.entry_state = None
        self.slice_len = None
        self.cur_dest_ty = None
        self.cur_state = None
        self.summaries = None
        self.tbl_info = {}
        self.tbl_inv_cache = {}
        self.bitcanon = False     # summarised callees take their arguments in bit-level canonical form (bitform.py)
        self.fork_log = None
        import models
        models.install(self)

    def reset(self, budget=None):
        """forget the results of the previous run (the interpreter object itself is reusable)"""
        self.steps = 0
        self.sites = {}
        self.callstack = []
        self.entry_state = None
        self.slice_len = None
        self.cur_state = None
        self.fork_log = None
        if budget is not None:
            self.budget = budget
        return self

    def _ptr_bits(self):
        for t in self.types:
            if t.get('psz'):
                return t['w']
        return 64

    # ================================================================ types
    def ty(self, t):
        return self.types[t]

    def int_info(self, t):
        d = self.types[t]
        k = d['k']
        if k == 'int':
            return d['w'], d['sg']
        if k == 'bool':
            return 8, False
        if k == 'char':
            return 32, False
        return None

    def usize(self, v):
        return cint(self.ptr_bits, v)

    def top(self, t, name=None, depth=0):
        """unknown value of type t"""
        d = self.types[t]
        k = d['k']
        ii = self.int_info(t)
        if ii:
            if k == 'bool':
                return abool(0, 1, T.sym(name, 8) if (T.ENABLED and name) else None)
            if k == 'char':
                return AInt(32, 0, 0x10FFFF)
            return topint(ii[0], ii[1], T.sym(name, ii[0]) if (T.ENABLED and name) else None)
        if k == 'array':
            n = d['n']
            if not isinstance(n, int):
                raise Unsupported('array of generic length')
            if n <= ARR_LIMIT:
                return Arr(t, [self.top(d['e'], '%s[%d]' % (name, i) if name else None, depth + 1) for i in range(n)],
                           name if T.ENABLED else None)
            return ArrSum(t, self.top(d['e'], None, depth + 1), self.usize(n))
        if k == 'tuple':
            return Struct(t, [self.top(x, '%s.%d' % (name, i) if name else None, depth + 1) for i, x in enumerate(d['f'])])
        if k == 'closure':
            return Struct(t, [self.top(x, None, depth + 1) for x in d['f']])
        if k == 'adt':
            if d['adt_kind'] == 'struct' and d.get('size') in (8, 16) and is_simd_type(d):
                import simd
                return simd.Vec(t, [topint(8)] * d['size'], T.sym(name, 8 * d['size']) if (T.ENABLED and name) else None)
            if d['adt_kind'] == 'struct':
                return Struct(t, [self.top(f['t'], '%s.%s' % (name, f['name']) if name else None, depth + 1)
                                  for f in d['variants'][0]['f']])
            if d['adt_kind'] == 'enum':
                if len(d['variants']) == 0:
                    return Opaque(t)
                return EnumAny(t, {i: tuple(self.top(f['t'], None, depth + 1) for f in v['f']) for i, v in enumerate(d['variants'])})
            return Opaque(t, T.sym(name, 0) if (T.ENABLED and name) else None)    # union
        if k in ('ref', 'ptr'):
            # an unknown pointer: points to a fresh unknown object
            return self.fresh_ptr(d['t'], name, d.get('mut', False))
        if k in ('fndef',):
            return UNIT
        if k == 'never':
            return UNIT
        return Opaque(t, T.sym(name, 0) if (T.ENABLED and name) else None)

    def fresh_ptr(self, pointee, name, mut):
        """an unknown pointer argument: points to a fresh object of unknown content (entry states only)"""
        if self.entry_state is None:
            raise Unsupported('unknown pointer value of type *%s (%s)' % (self.types[pointee]['s'][:60], name))
        self.fresh += 1
        obj = ('P', name or 'p%d' % self.fresh, self.fresh)
        d = self.types[pointee]
        if d['k'] in ('slice', 'str'):
            et = d['e'] if d['k'] == 'slice' else None
            n = self.slice_len if self.slice_len is not None else topint(self.ptr_bits)
            if n.const is not None and n.const <= ARR_LIMIT and et is not None:
                self.entry_state.mem[obj] = Arr(pointee, [self.top(et, '%s[%d]' % (name, i) if name else None) for i in range(n.const)])
            else:
                self.entry_state.mem[obj] = ArrSum(pointee, self.top(et) if et is not None else topint(8), n)
            return Ptr(obj, (), self.usize(0), n, None, None, mut)
        self.entry_state.mem[obj] = self.top(pointee, name)
        return Ptr(obj, (), None, None, None, None, mut)

    # ================================================================ constants & raw allocations
    def alloc(self, aid):
        a = self.m.allocs.get(aid)
        if a is None:
            raise Unsupported('unknown allocation %s' % aid)
        if a['k'] == 'static':
            st = self.m.statics.get(a['path'])
            if st is None or 'init' not in st:
                raise Unsupported('static %s without initializer' % a['path'])
            return st['init'], a['path']
        if a['k'] != 'mem':
            raise Unsupported('allocation kind %s' % a['k'])
        return a, None

    def alloc_name(self, aid):
        """a configuration-independent name for a constant allocation: the static's path or a content hash"""
        nm = self.alloc_cache.setdefault('names', {}).get(aid)
        if nm is None:
            a = self.m.allocs.get(aid, {})
            if a.get('k') == 'static':
                nm = a['path']
            else:
                import hashlib
                nm = 'k' + hashlib.sha1(a.get('bytes', '').encode()).hexdigest()[:12]
            self.alloc_cache['names'][aid] = nm
        return nm

    def alloc_bytes(self, aid):
        if aid not in self.alloc_cache:
            a, _ = self.alloc(aid)
            self.alloc_cache[aid] = (bytes.fromhex(a['bytes']), {o: r for (o, r) in a.get('ptrs', [])})
        return self.alloc_cache[aid]

    def decode(self, aid, off, t, memo=None):
        """value of type t stored at byte offset off of raw allocation aid"""
        key = (aid, off, t)
        dc = self.alloc_cache.setdefault('dec', {})
        if key in dc:
            return dc[key]
        raw, ptrs = self.alloc_bytes(aid)
        d = self.types[t]
        k = d['k']
        ii = self.int_info(t)
        if ii:
            n = ii[0] // 8
            if off + n > len(raw):
                raise Unsupported('constant read out of bounds')
            v = cint(ii[0], int.from_bytes(raw[off:off + n], 'little'), ii[1])
        elif k == 'array':
            es = self.types[d['e']].get('size')
            if es is None:
                raise Unsupported('array element without layout')
            n = d['n']
            if n > ARR_LIMIT:
                v = RawArr(t, aid, off, n, es)
            else:
                v = Arr(t, [self.decode(aid, off + i * es, d['e']) for i in range(n)],
                        ('tbl:%s+%d' % (self.alloc_name(aid), off)) if T.ENABLED else None)
        elif k in ('tuple',) or (k == 'adt' and d['adt_kind'] == 'struct'):
            fts = d['f'] if k == 'tuple' else [f['t'] for f in d['variants'][0]['f']]
            offs = d.get('offs')
            if offs is None and len(fts) > 0:
                if d.get('size') == 0:
                    offs = [0] * len(fts)
                else:
                    raise Unsupported('struct without layout: %s' % d['s'][:60])
            v = Struct(t, [self.decode(aid, off + offs[i], ft) for i, ft in enumerate(fts)])
        elif k in ('ref', 'ptr'):
            psz = self.ptr_bits // 8
            tgt = ptrs.get(off)
            pt = self.types[d['t']]
            if tgt is None:
                addr = int.from_bytes(raw[off:off + psz], 'little')
                v = Ptr(('null',), (), null=True) if addr == 0 else Opaque(t)
            else:
                inner_off = int.from_bytes(raw[off:off + psz], 'little')
                p = Ptr(('A', tgt), (), view=d['t'], mut=False)
                p = RawPtr(tgt, inner_off, d['t'])
                if pt['k'] in ('slice', 'str'):
                    ln = int.from_bytes(raw[off + psz:off + 2 * psz], 'little')
                    p.length = self.usize(ln)
                    p.start = self.usize(0)
                v = p
        elif k == 'adt' and d['adt_kind'] == 'enum':
            v = self.decode_enum(aid, off, t, d, raw)
        else:
            v = Opaque(t)
        dc[key] = v
        return v

    def decode_enum(self, aid, off, t, d, raw):
        el = d.get('enum_layout')
        if el is None:
            if len(d['variants']) == 1:
                offs = d.get('offs') or []
                fs = d['variants'][0]['f']
                return Enum(t, 0, [self.decode(aid, off + (offs[i] if i < len(offs) else 0), f['t']) for i, f in enumerate(fs)])
            raise Unsupported('enum constant without layout: %s' % d['s'][:60])
        tag = int.from_bytes(raw[off + el['tag_off']:off + el['tag_off'] + el['tag_size']], 'little')
        if el['enc'] == 'direct':
            ds = el.get('discrs') or list(range(len(d['variants'])))
            if tag not in ds:
                raise Unsupported('invalid enum tag in constant')
            vi = ds.index(tag)
        else:
            nv = el['niche_last'] - el['niche_first'] + 1
            rel = (tag - el['niche_start']) & ((1 << (8 * el['tag_size'])) - 1)
            vi = el['niche_first'] + rel if rel < nv else el['untagged']
        offs = el['variant_offs'][vi]
        fs = d['variants'][vi]['f']
        return Enum(t, vi, [self.decode(aid, off + (offs[i] if i < len(offs) else 0), f['t']) for i, f in enumerate(fs)])

    def const(self, c, frame):
        t = c['t']
        if 'fn' in c:
            return FnVal(c['fn'])
        if 'v' in c:
            ii = self.int_info(t)
            if ii:
                return cint(ii[0], c['v'], ii[1])
            d = self.types[t]
            if d['k'] == 'adt' and d['adt_kind'] == 'enum':
                return self.enum_from_scalar(t, d, c['v'])
            if d['k'] in ('ptr',) and c['v'] == 0:
                return Ptr(('null',), (), null=True)
            if d['k'] == 'ptr':
                return Ptr(('addr', c['v']), (), null=False)
            if d.get('size') is not None and d['k'] in ('adt', 'tuple'):
                return self.scalar_to_struct(t, c['v'], c.get('sz', 0))
            return Opaque(t)
        if c.get('zst'):
            return self.zst(t)
        if 'ptr' in c:
            d = self.types[t]
            if d['k'] not in ('ref', 'ptr'):
                raise Unsupported('pointer constant of type %s' % d['s'][:50])
            p = RawPtr(c['ptr'], c.get('off', 0), d['t'])
            a = self.m.allocs.get(c['ptr'], {})
            if a.get('k') == 'fn':
                return Opaque(t)
            if 'len' in c:
                p.length = self.usize(c['len'])
                p.start = self.usize(0)
            return p
        if 'alloc' in c:
            return self.decode(c['alloc'], c.get('off', 0), t)
        if 'uneval' in c:
            raise Unsupported('unevaluated constant %s' % c['uneval'][:60])
        raise Unsupported('constant form %s' % list(c))

    def enum_from_scalar(self, t, d, v):
        el = d.get('enum_layout')
        if el is None:
            if len(d['variants']) == 1:
                return Enum(t, 0, [self.zst(f['t']) if self.types[f['t']].get('size') == 0 else Opaque(f['t'])
                                   for f in d['variants'][0]['f']])
            return Enum(t, v, ())
        if el['enc'] == 'direct':
            ds = el.get('discrs') or list(range(len(d['variants'])))
            tagv = v & ((1 << (8 * el['tag_size'])) - 1)
            vi = ds.index(tagv) if tagv in ds else None
        else:
            nv = el['niche_last'] - el['niche_first'] + 1
            rel = (v - el['niche_start']) & ((1 << (8 * el['tag_size'])) - 1)
            vi = el['niche_first'] + rel if rel < nv else el['untagged']
        if vi is None:
            raise Unsupported('enum scalar constant with unknown tag')
        fs = d['variants'][vi]['f']
        vals = []
        for f in fs:
            fd = self.types[f['t']]
            if fd.get('size') == 0:
                vals.append(self.zst(f['t']))
            else:
                ii = self.int_info(f['t'])
                vals.append(cint(ii[0], v, ii[1]) if ii else Opaque(f['t']))
        return Enum(t, vi, vals)

    def scalar_to_struct(self, t, v, sz):
        d = self.types[t]
        fts = d['f'] if d['k'] == 'tuple' else [f['t'] for f in d['variants'][0]['f']]
        out = []
        done = False
        for ft in fts:
            fd = self.types[ft]
            if fd.get('size') == 0:
                out.append(self.zst(ft))
            elif not done:
                ii = self.int_info(ft)
                if ii:
                    out.append(cint(ii[0], v, ii[1]))
                elif fd['k'] in ('adt', 'tuple'):
                    out.append(self.scalar_to_struct(ft, v, sz))
                else:
                    out.append(Opaque(ft))
                done = True
            else:
                out.append(Opaque(ft))
        return Struct(t, out)

    def zst(self, t):
        d = self.types[t]
        k = d['k']
        if k == 'tuple':
            return Struct(t, [self.zst(x) for x in d['f']])
        if k == 'adt' and d['adt_kind'] == 'struct':
            return Struct(t, [self.zst(f['t']) for f in d['variants'][0]['f']])
        if k == 'adt' and d['adt_kind'] == 'enum' and len(d['variants']) == 1:
            return Enum(t, 0, [self.zst(f['t']) for f in d['variants'][0]['f']])
        if k == 'array':
            if d['n'] == 0:
                return Arr(t, [])
            return Arr(t, [self.zst(d['e'])] * d['n']) if d['n'] <= ARR_LIMIT else ArrSum(t, self.zst(d['e']), self.usize(d['n']))
        if k == 'closure':
            return Struct(t, [self.zst(x) for x in d['f']])
        return UNIT if k in ('fndef', 'never') else Opaque(t)

    # ================================================================ memory
    def lobj(self, frame, local):
        return ('L', frame.fid, local)

    def place(self, frame, st, p):
        """evaluate a MIR place to a location"""
        body = frame.body
        loc = Loc(self.lobj(frame, p[0]), (), body['locals'][p[0]])
        for e in p[1:]:
            loc = self.project(frame, st, loc, e)
        return loc

    def project(self, frame, st, loc, e):
        d = self.types[loc.ty]
        if e == '*':
            pv = self.read(st, loc)
            return self.deref(pv, d.get('t'), st)
        k = e[0]
        if k == 'f':
            if loc.viewed and loc.boff is None and d['k'] == 'adt' and d['adt_kind'] == 'struct':
                # field of a value seen through a pointer cast: a transparent wrapper's only non-ZST field is the
                # underlying location itself
                fs = d['variants'][0]['f']
                nz = [i for i, f in enumerate(fs) if self.types[f['t']].get('size') != 0]
                if len(nz) == 1 and nz[0] == e[1]:
                    return Loc(loc.obj, loc.path, e[2], loc.win, None, True)
            if loc.boff is not None:
                offs = d.get('offs')
                if offs is None:
                    raise Unsupported('field of raw allocation without layout')
                return Loc(loc.obj, (), e[2], None, loc.boff + offs[e[1]])
            if loc.meta is not None:
                fd = self.types[e[2]]
                if fd['k'] == 'slice':
                    return Loc(loc.obj, loc.path + (e[1],), e[2], (self.usize(0), loc.meta))
                if fd['k'] == 'adt' and fd.get('size') is None:
                    return Loc(loc.obj, loc.path + (e[1],), e[2], None, None, False, loc.meta)
            return Loc(loc.obj, loc.path + (e[1],), e[2])
        if k == 'i':
            idx = self.read(st, Loc(self.lobj(frame, e[1]), (), frame.body['locals'][e[1]]))
            return self.index(loc, idx, st)
        if k == 'c':
            off, minlen, from_end = e[1], e[2], e[3]
            if from_end:
                n = self.length_of(st, loc)
                if n.const is None:
                    raise Unsupported('from-end constant index on slice of unknown length')
                return self.index(loc, self.usize(n.const - off), st)
            return self.index(loc, self.usize(off), st)
        if k == 's':
            frm, to, from_end = e[1], e[2], e[3]
            n = self.length_of(st, loc)
            if from_end:
                if n.const is None:
                    raise Unsupported('subslice from end of unknown length')
                ln = n.const - to - frm
            else:
                ln = to - frm
            start = self.usize(frm)
            if loc.win is not None:
                start = self.add_usize(loc.win[0], start)
            et = d['e']
            # result type: same container kind (array pattern yields arrays, slices yield slices); we keep the parent type
            return Loc(loc.obj, loc.path, loc.ty, (start, self.usize(ln)), loc.boff)
        if k == 'd':
            return Loc(loc.obj, loc.path + (('v', e[1]),), loc.ty, None, loc.boff)
        if k in ('o', 'u'):
            return Loc(loc.obj, loc.path, e[1], loc.win, loc.boff)
        raise Unsupported('projection %s' % (e,))

    def add_usize(self, a, b):
        from ops import binop
        return binop(self, 'Add', a, b, self.ptr_bits, False)[0]

    def length_of(self, st, loc):
        d = self.types[loc.ty]
        if loc.win is not None:
            return loc.win[1]
        if d['k'] == 'array':
            return self.usize(d['n'])
        v = self.read(st, loc) if loc.boff is None else None
        if isinstance(v, ArrSum):
            return v.n
        if isinstance(v, Arr):
            return self.usize(len(v.e))
        raise Unsupported('length of %s' % d['s'][:50])

    def index(self, loc, idx, st=None):
        d = self.types[loc.ty]
        et = d.get('e')
        if et is None:
            raise Unsupported('index into non-array %s' % d['s'][:50])
        if loc.win is not None:
            idx = self.add_usize(loc.win[0], idx)
        if loc.viewed and loc.boff is None and st is not None:
            # an array reinterpreted with a smaller element type (e.g. [uint8x16_t; N] as [u32]): address the bytes
            s_el = self.types[et].get('size')
            try:
                base = self.read(st, Loc(loc.obj, loc.path, None))
            except Unsupported:
                base = None
            for _ in range(4):
                if isinstance(base, Struct):
                    nz = [x for x in base.f if not (isinstance(x, Struct) and not x.f)]
                    if len(nz) == 1:
                        base = nz[0]
                        continue
                break
            S_el = None
            if isinstance(base, (Arr, ArrSum)) and base.ty is not None and self.types[base.ty]['k'] in ('array', 'slice'):
                S_el = self.types[self.types[base.ty]['e']].get('size')
            if s_el and S_el and S_el > s_el and S_el % s_el == 0:
                if idx.const is None:
                    raise Unsupported('abstract index into a reinterpreted array')
                ratio = S_el // s_el
                return Loc(loc.obj, loc.path + (('i', idx.const // ratio),), et, viewed=True,
                           part=((idx.const % ratio) * s_el, s_el))
        if loc.boff is not None:
            es = self.types[et].get('size')
            if idx.const is None:
                return Loc(loc.obj, (('ri', idx, es),), et, None, loc.boff)
            return Loc(loc.obj, (), et, None, loc.boff + idx.const * es)
        if idx.const is not None:
            return Loc(loc.obj, loc.path + (('i', idx.const),), et, viewed=loc.viewed)
        return Loc(loc.obj, loc.path + (('i?', idx),), et, viewed=loc.viewed)

    def deref(self, pv, pointee_ty, st):
        if isinstance(pv, RawPtr):
            t = pv.view if pv.view is not None else pointee_ty
            td = self.types[t]
            loc = Loc(('A', pv.aid), (), t, None, pv.off)
            if pv.length is not None:
                # slice in a raw allocation: type is [T] ; represent window
                loc.win = (pv.start, pv.length)
            if pv.elem is not None:
                es = pv.eunit if pv.eunit is not None else self.types[t].get('size')
                if pv.elem.const is None:
                    loc.path = (('ri', pv.elem, es),)
                else:
                    loc.boff = pv.off + pv.elem.const * es
            return loc
        if not isinstance(pv, Ptr):
            raise Unsupported('dereference of non-pointer value %r' % (pv,))
        if pv.null or pv.obj[0] in ('null', 'addr'):
            raise Unsupported('dereference of a null / integer pointer')
        t = pointee_ty if pv.view is None else pv.view
        vw = pv.view is not None
        if vw and pv.elem is None and pv.length is None and st is not None and self.types[t].get('size'):
            # a pointer to (a wrapper of) an array, viewed as a pointer to its element type: element 0
            nb = self.array_base(pv, st, t)
            if nb is not None:
                pv = nb
                vw = pv.view is not None
        at = self.strip_transparent(t) if vw else None
        if pv.elem is not None and vw and at is not None and self.types[at]['k'] == 'array':
            # `&slice[i] as *const T as *const [T; N]` (or a transparent wrapper of it): a window of N elements
            td = self.types[at]
            try:
                base = self.read(st, Loc(pv.obj, pv.path, None))
            except Unsupported:
                base = None
            bes = None
            if isinstance(base, (Arr, ArrSum)) and base.ty is not None and self.types[base.ty]['k'] in ('array', 'slice'):
                bes = self.types[self.types[base.ty]['e']].get('size')
            if bes is not None and bes == self.types[td['e']].get('size') and isinstance(td['n'], int):
                return Loc(pv.obj, pv.path, t, (pv.elem, self.usize(td['n'])), viewed=True)
        if pv.elem is not None:
            # the array type is not tracked on the pointer; element type is the pointee
            if pv.elem.const is not None:
                return Loc(pv.obj, pv.path + (('i', pv.elem.const),), t, viewed=vw)
            return Loc(pv.obj, pv.path + (('i?', pv.elem),), t, viewed=vw)
        if pv.length is not None and pv.start is None:
            # pointer to a struct whose last field was unsized ([T; N] -> [T]): keep the length as metadata
            return Loc(pv.obj, pv.path, t, None, viewed=vw, meta=pv.length)
        win = (pv.start, pv.length) if pv.length is not None else None
        return Loc(pv.obj, pv.path, t, win, viewed=vw)

    # ---- structured read
    def read(self, st, loc):
        if loc.boff is not None or loc.obj[0] == 'A':
            return self.read_raw(loc)
        if loc.obj not in st.mem:
            if loc.obj[0] == 'L' and not loc.path and loc.ty is not None:
                # a local that is not initialised on this path (optimised library MIR reads such dead locals
                # under an `assume`): any value
                return self.top(loc.ty)
            raise Unsupported('read of unallocated object %s' % (loc.obj,))
        v = st.mem[loc.obj]
        t = None
        for step in loc.path:
            v = self.step_read(v, step, loc)
        if loc.part is not None:
            return self.read_part(v, loc)
        if loc.win is not None:
            v = self.window(v, loc.win, loc.ty)
        if loc.viewed and loc.ty is not None:
            v = self.adapt_type(v, loc.ty)
        return v

    def value_type(self, v):
        t = getattr(v, 'ty', None)
        if t is None and isinstance(v, AInt):
            for i, d in enumerate(self.types):
                if d['k'] == 'int' and d['w'] == v.w and d['sg'] == v.signed and not d.get('psz'):
                    return i
        return t

    def read_part(self, v, loc):
        from ops import flatten, unflatten
        t = self.value_type(v)
        bs = flatten(self, v, t) if t is not None else None
        if bs is None:
            return self.top(loc.ty)
        off, n = loc.part
        r = unflatten(self, bs[off:off + n], loc.ty)
        return r if r is not None else self.top(loc.ty)

    def write_part(self, old, loc, val):
        from ops import flatten, unflatten
        t = self.value_type(old)
        bs = flatten(self, old, t) if t is not None else None
        nb = flatten(self, val, loc.ty)
        off, n = loc.part
        if bs is None or nb is None or t is None:
            if t is not None:
                return self.top(t)
            raise Unsupported('partial write into %r' % (old,))
        bs = list(bs)
        bs[off:off + n] = nb
        r = unflatten(self, bs, t)
        return r if r is not None else self.top(t)

    def adapt_type(self, v, t, depth=0):
        """reshape a value read through a pointer cast: strip / add transparent wrappers (MaybeUninit, ManuallyDrop,
        repr(transparent) newtypes) so that the value has the shape of type t"""
        d = self.types[t]
        k = d['k']
        if depth > 12:
            return v
        vt = getattr(v, 'ty', None)
        if vt == t:
            return v
        if isinstance(v, UnionVal):
            if isinstance(v.v, Uninit) or v.active is None:
                return self.uninit_of(t)
            if k == 'adt' and d['adt_kind'] == 'union':
                return v
            return self.adapt_type(v.v, t, depth + 1)
        if k == 'adt' and d['adt_kind'] == 'union':
            # view as MaybeUninit<X>: wrap into the first non-ZST arm
            fs = d['variants'][0]['f']
            nz = [i for i, f in enumerate(fs) if self.types[f['t']].get('size') != 0]
            if len(nz) == 1:
                return UnionVal(t, nz[0], self.adapt_type(v, fs[nz[0]]['t'], depth + 1))
            return v
        ii = self.int_info(t)
        if ii:
            if isinstance(v, AInt):
                if v.w == ii[0]:
                    return v
                raise Unsupported('a %d-bit integer is read through a pointer to a %d-bit integer' % (v.w, ii[0]))
            if isinstance(v, Struct):
                nzv = [x for x in v.f if not (isinstance(x, Struct) and not x.f)]
                if len(nzv) == 1:
                    return self.adapt_type(nzv[0], t, depth + 1)
            if isinstance(v, Arr) and v.ty is not None:
                # an array read through a pointer to one wide integer (e.g. [u8; 16] as u128): reassemble from bytes
                from ops import flatten, unflatten
                bs = flatten(self, v, v.ty)
                if bs is not None and len(bs) * 8 == ii[0]:
                    r = unflatten(self, bs, t)
                    if r is not None:
                        return r
            if isinstance(v, (Uninit,)):
                return v
            raise Unsupported('value %r is read through a pointer to %s' % (v, d['s'][:40]))
        if k == 'array':
            if isinstance(v, Arr):
                if vt is not None and self.types[vt]['k'] == 'array' and self.types[vt]['e'] == d['e']:
                    return v
                return Arr(t, [self.adapt_type(x, d['e'], depth + 1) for x in v.e])
            if isinstance(v, ArrSum):
                return ArrSum(t, self.adapt_type(v.elem, d['e'], depth + 1), v.n)
            if isinstance(v, Struct):
                nzv = [x for x in v.f if not (isinstance(x, Struct) and not x.f)]
                if len(nzv) == 1:
                    return self.adapt_type(nzv[0], t, depth + 1)
            return v
        if k == 'adt' and d['adt_kind'] == 'struct' or k == 'tuple':
            fts = d['f'] if k == 'tuple' else [f['t'] for f in d['variants'][0]['f']]
            nz = [i for i, ft in enumerate(fts) if self.types[ft].get('size') != 0]
            if isinstance(v, Struct) and vt is not None and self.types[vt]['k'] == k and len(v.f) == len(fts) and \
                    (k == 'tuple' or self.types[vt].get('path') == d.get('path')):
                return Struct(t, [self.adapt_type(x, ft, depth + 1) for x, ft in zip(v.f, fts)])
            if len(nz) == 1:
                inner = self.adapt_type(v, fts[nz[0]], depth + 1)
                return Struct(t, [inner if i == nz[0] else self.zst(ft) for i, ft in enumerate(fts)])
            return v
        return v

    def strip_transparent(self, t):
        """the array type inside single-field wrapper structs (hybrid_array::Array), else t"""
        for _ in range(6):
            d = self.types[t]
            if d['k'] == 'adt' and d['adt_kind'] == 'struct':
                nz = [f['t'] for f in d['variants'][0]['f'] if self.types[f['t']].get('size') != 0]
                if len(nz) == 1:
                    t = nz[0]
                    continue
            return t
        return t

    def uninit_of(self, t, depth=0):
        """an uninitialised value with the shape of type t"""
        d = self.types[t]
        k = d['k']
        if d.get('size') == 0:
            return self.zst(t)
        if k == 'array' and isinstance(d['n'], int) and d['n'] <= ARR_LIMIT:
            e = self.uninit_of(d['e'], depth + 1)
            return Arr(t, [e] * d['n'])
        if k == 'array':
            return ArrSum(t, self.uninit_of(d['e'], depth + 1), self.usize(d['n']))
        if k == 'tuple':
            return Struct(t, [self.uninit_of(x, depth + 1) for x in d['f']])
        if k == 'adt' and d['adt_kind'] == 'struct':
            return Struct(t, [self.uninit_of(f['t'], depth + 1) for f in d['variants'][0]['f']])
        if k == 'adt' and d['adt_kind'] == 'union':
            return UnionVal(t, None, UNINIT)
        return UNINIT

    def window(self, v, win, ty):
        s, n = win
        if ty is not None and self.types[ty]['k'] not in ('array', 'slice'):
            ty = None
        if isinstance(v, Arr) and s.const is not None and n.const is not None:
            return Arr(ty, v.e[s.const:s.const + n.const])
        if isinstance(v, ArrSum):
            return ArrSum(ty, v.elem, n)
        if isinstance(v, Arr):
            e = v.e[0] if v.e else None
            for x in v.e[1:]:
                e = join(e, x, self.top)
            return ArrSum(ty, e, n)
        raise Unsupported('window of %r' % (v,))

    def step_read(self, v, step, loc):
        if isinstance(v, Uninit):
            raise Unsupported('read through uninitialised memory')
        if isinstance(step, int):
            if isinstance(v, (Struct, Enum)):
                return v.f[step]
            if isinstance(v, tuple):
                return v[step]
            if isinstance(v, UnionVal):
                if v.active == step:
                    return v.v
                ft = self.types[v.ty]['variants'][0]['f'][step]['t'] if v.ty is not None else None
                if ft is not None and (v.active is None or isinstance(v.v, Uninit) or
                                       (isinstance(v.v, Struct) and not v.v.f)):
                    return self.uninit_of(ft)      # MaybeUninit::uninit().assume_init() and friends
                if ft is not None:
                    return self.adapt_type(v.v, ft)
                raise Unsupported('read of inactive union field %d (active %s)' % (step, v.active))
            if isinstance(v, Opaque):
                if v.ty is not None and self.types[v.ty]['k'] == 'adt':
                    fs = self.types[v.ty]['variants'][0]['f'] if self.types[v.ty]['variants'] else []
                    if step < len(fs):
                        return self.top(fs[step]['t'])
                return Opaque(None)
            raise Unsupported('field %d of %r' % (step, v))
        k = step[0]
        if k in ('i', 'i?') and isinstance(v, Struct):
            nz = [x for x in v.f if not (isinstance(x, Struct) and not x.f)]
            if len(nz) == 1:
                return self.step_read(nz[0], step, loc)      # index through a transparent wrapper (hybrid_array::Array)
        if isinstance(v, RawArr):
            if k == 'i':
                return self.decode(v.aid, v.off + step[1] * v.es, self.types[v.ty]['e'])
            if k == 'i?':
                return self.read_raw(Loc(('A', v.aid), (('ri', step[1], v.es),), self.types[v.ty]['e'], None, v.off))
        if k == 'i':
            if isinstance(v, Arr):
                if step[1] >= len(v.e):
                    raise Unsupported('index %d out of %d-element array (bounds not established)' % (step[1], len(v.e)))
                return v.e[step[1]]
            if isinstance(v, ArrSum):
                return v.elem
            if isinstance(v, Opaque):
                return Opaque(None)
            raise Unsupported('index into %r' % (v,))
        if k == 'i?':
            idx = step[1]
            if isinstance(v, Arr):
                lo, hi = idx.lo, min(idx.hi, len(v.e) - 1)
                if lo > hi:
                    raise Unsupported('abstract index certainly out of range')
                full = lo == 0 and hi == len(v.e) - 1
                if T.ENABLED and v.name is not None and idx.term is not None:
                    h = v.hull
                    if h is None:
                        h = v.e[0]
                        for x in v.e[1:]:
                            if x is not h:
                                h = join(h, x, self.top)
                        h = drop_term(h)
                        v.hull = h
                    if isinstance(h, AInt):
                        name = 'sel:' + v.name
                        if h.w == 8 and len(v.e) == 256 and name not in self.tbl_info and all(isinstance(x, AInt) and x.const is not None for x in v.e):
                            self.tbl_info[name] = bytes(x.const for x in v.e)
                        inv = self.table_inverse(name, h.w, idx.term)
                        if inv is not None:
                            return h.with_term(inv)
                        return h.with_term(T.op(name, h.w, idx.term))
                if full and v.hull is not None:
                    return v.hull
                r = v.e[lo]
                for x in v.e[lo + 1:hi + 1]:
                    if x is not r:
                        r = join(r, x, self.top)
                r = drop_term(r)
                if full:
                    v.hull = r
                return r
            if isinstance(v, ArrSum):
                return v.elem
            raise Unsupported('abstract index into %r' % (v,))
        if k == 'v':
            if isinstance(v, Enum):
                if v.variant != step[1]:
                    raise Unsupported('downcast to variant %d of a value in variant %d' % (step[1], v.variant))
                return v.f
            if isinstance(v, EnumAny):
                if step[1] not in v.variants:
                    raise Unsupported('downcast to an impossible variant')
                return v.variants[step[1]]
            raise Unsupported('downcast of %r' % (v,))
        raise Unsupported('path step %s' % (step,))

    def read_raw(self, loc):
        aid = loc.obj[1]
        if loc.path and loc.path[0][0] == 'ri':
            _, idx, es = loc.path[0]
            # abstract index into a constant table: hull of the entries
            n_total = None
            lo, hi = idx.lo, idx.hi
            raw, _ = self.alloc_bytes(aid)
            maxi = (len(raw) - loc.boff) // es - 1
            hi = min(hi, maxi)
            if hi - lo > 70000:
                return self.top(loc.ty)
            key = (aid, loc.boff, loc.ty, lo, hi)
            hc = self.alloc_cache.setdefault('hull', {})
            if key not in hc:
                r = self.decode(aid, loc.boff + lo * es, loc.ty)
                for i in range(lo + 1, hi + 1):
                    r = join(r, self.decode(aid, loc.boff + i * es, loc.ty), self.top)
                hc[key] = drop_term(r)
            r = hc[key]
            if T.ENABLED and idx.term is not None and isinstance(r, AInt):
                name = 'tbl:%s+%d/%d' % (self.alloc_name(aid), loc.boff, es)
                self.tbl_info[name] = (aid, loc.boff, es)
                inv = self.table_inverse(name, r.w, idx.term)
                if inv is not None:
                    return r.with_term(inv)
                return r.with_term(T.op(name, r.w, idx.term))
            return r
        v = self.decode(aid, loc.boff or 0, loc.ty) if loc.win is None else self.decode_slice(aid, loc)
        for step in loc.path:
            v = self.step_read(v, step, loc)
        return v

    def table_inverse(self, name, w, idx_term):
        """A[B[x]] = x for two constant byte tables that are mutually inverse permutations (read off the constants, as
        const evaluation would): the lookup of a zero-extended B-lookup in A is the index byte of the B-lookup"""
        if w != 8:
            return None
        if T.BITCANON:
            import bitform
            idx_term = bitform.recanon(idx_term)
        if idx_term[0] != 'cat':
            return None
        parts = idx_term[2]
        if not parts or parts[0][1] != 0 or parts[0][2] != 8 or any(not (p[0][0] == 'c' and p[0][2] == 0) for p in parts[1:]):
            return None
        inner = parts[0][0]
        if not inner[0].startswith(('tbl:', 'sel:')) or inner[1] != 8 or inner[0] not in self.tbl_info or name not in self.tbl_info:
            return None
        y = inner[2]
        wy = T.width(y)
        if wy < 8:
            return None
        if wy > 8:
            hi = T.slice_(y, 8, wy - 8)
            if not (hi[0] == 'c' and hi[2] == 0):
                return None           # the inner index is not known to be a byte
        key = (name, inner[0])
        ok = self.tbl_inv_cache.get(key)
        if ok is None:
            def table(info):
                if isinstance(info, bytes):
                    return info if len(info) == 256 else None
                (a_, o_, e_) = info
                if e_ != 1:
                    return None
                raw_, _ = self.alloc_bytes(a_)
                return raw_[o_:o_ + 256] if len(raw_) - o_ >= 256 else None
            ta, tb = table(self.tbl_info[name]), table(self.tbl_info[inner[0]])
            ok = ta is not None and tb is not None and all(ta[tb[v]] == v for v in range(256))
            self.tbl_inv_cache[key] = ok
        if not ok:
            return None
        return T.slice_(y, 0, 8)

    def decode_slice(self, aid, loc):
        d = self.types[loc.ty]
        et = d['e']
        es = self.types[et].get('size')
        s, n = loc.win
        if s.const is None or n.const is None:
            raise Unsupported('abstract window into a constant')
        return Arr(loc.ty, [self.decode(aid, (loc.boff or 0) + (s.const + i) * es, et) for i in range(n.const)])

    # ---- structured write
    def write(self, st, loc, val):
        if loc.obj[0] in ('A', 'S'):
            raise Unsupported('write to constant memory')
        if loc.obj[0] in ('null', 'addr'):
            raise Unsupported('write through invalid pointer')
        old = st.mem.get(loc.obj, UNINIT)
        if loc.viewed and loc.part is None:
            try:
                cur = self.read(st, Loc(loc.obj, loc.path, None, loc.win))
                val = self.adapt_like(val, cur)
            except Unsupported:
                pass
        if loc.part is not None:
            st.mem[loc.obj] = self.upd(old, loc.path, lambda o: self.write_part(o, loc, val), loc)
        elif loc.win is not None:
            st.mem[loc.obj] = self.upd(old, loc.path, lambda o: self.write_window(o, loc.win, val), loc)
        else:
            st.mem[loc.obj] = self.upd(old, loc.path, lambda o: val, loc)

    def write_window(self, old, win, val):
        s, n = win
        if isinstance(old, Arr) and s.const is not None and n.const is not None and isinstance(val, Arr) and len(val.e) == n.const:
            e = list(old.e)
            e[s.const:s.const + n.const] = val.e
            return Arr(old.ty, e)
        raise Unsupported('window write')

    def upd(self, v, path, fn, loc, weak=False):
        if not path:
            nv = fn(v)
            if weak and not isinstance(v, Uninit):
                return join(v, nv, self.top)
            return nv
        step = path[0]
        rest = path[1:]
        if isinstance(v, Uninit):
            # writing a field of an uninitialised aggregate: materialise from the type is not possible here
            raise Unsupported('partial write into uninitialised object')
        if isinstance(step, int):
            if isinstance(v, Struct):
                f = list(v.f)
                f[step] = self.upd(f[step], rest, fn, loc, weak)
                return Struct(v.ty, f)
            if isinstance(v, Enum):
                f = list(v.f)
                f[step] = self.upd(f[step], rest, fn, loc, weak)
                return Enum(v.ty, v.variant, f)
            if isinstance(v, tuple):
                f = list(v)
                f[step] = self.upd(f[step], rest, fn, loc, weak)
                return tuple(f)
            if isinstance(v, UnionVal) and v.active == step:
                return UnionVal(v.ty, v.active, self.upd(v.v, rest, fn, loc, weak))
            if isinstance(v, (UnionVal, Opaque)) and not rest:
                return UnionVal(getattr(v, 'ty', None), step, fn(UNINIT))
            if isinstance(v, UnionVal) and v.ty is not None:
                ft = self.types[v.ty]['variants'][0]['f'][step]['t']
                base = self.uninit_of(ft) if (v.active is None or isinstance(v.v, Uninit)) else self.adapt_type(v.v, ft)
                return UnionVal(v.ty, step, self.upd(base, rest, fn, loc, weak))
            raise Unsupported('field write into %r' % (v,))
        k = step[0]
        if k in ('i', 'i?') and isinstance(v, Struct):
            nz = [i for i, x in enumerate(v.f) if not (isinstance(x, Struct) and not x.f)]
            if len(nz) == 1:
                f = list(v.f)
                f[nz[0]] = self.upd(f[nz[0]], path, fn, loc, weak)
                return Struct(v.ty, f)
        if k == 'i':
            if isinstance(v, Arr):
                if step[1] >= len(v.e):
                    raise Unsupported('write index out of range')
                e = list(v.e)
                ne = self.upd(e[step[1]], rest, fn, loc, weak)
                e[step[1]] = ne
                na = Arr(v.ty, e)
                if v.hull is not None:
                    try:
                        na.hull = drop_term(join(v.hull, ne, self.top))    # sound over-approximation of the new hull
                    except JoinFail:
                        na.hull = None
                return na
            if isinstance(v, ArrSum):
                return ArrSum(v.ty, self.upd(v.elem, rest, fn, loc, True), v.n)
            raise Unsupported('index write into %r' % (v,))
        if k == 'i?':
            idx = step[1]
            if isinstance(v, Arr):
                lo, hi = idx.lo, min(idx.hi, len(v.e) - 1)
                e = list(v.e)
                single = lo == hi
                for i in range(lo, hi + 1):
                    e[i] = self.upd(e[i], rest, fn, loc, weak or not single)
                return Arr(v.ty, e)
            if isinstance(v, ArrSum):
                return ArrSum(v.ty, self.upd(v.elem, rest, fn, loc, True), v.n)
            raise Unsupported('abstract index write into %r' % (v,))
        if k == 'v':
            if isinstance(v, Enum) and v.variant == step[1]:
                nf = self.upd(v.f, rest, fn, loc, weak)
                return Enum(v.ty, v.variant, nf)
            raise Unsupported('write through downcast of %r' % (v,))
        raise Unsupported('write path step %s' % (step,))

    # ================================================================ obligations
    def site(self, frame, kind, desc, line):
        key = (pretty(frame.fn['path']), kind, desc)
        s = self.sites.get(key)
        if s is None:
            s = Site(key, frame.fn, kind, desc, line)
            self.sites[key] = s
        return s

    def obligation(self, frame, kind, desc, line, may_fail, why=''):
        s = self.site(frame, kind, desc, line)
        s.visits += 1
        if may_fail:
            s.fails += 1
            if not s.why:
                s.why = why
                s.why += '  [call path: %s]' % ' > '.join(self.callstack[-5:])

    # ================================================================ execution
    def call_fn(self, inst, args, st, depth=0):
        """run function instance `inst` on argument values; returns the return value (state is updated in place).
        Raises Diverge if no path returns."""
        fn = self.m.fn(inst)
        if fn is None:
            raise Unsupported('no body for instance %d' % inst)
        name = fn['path']
        if depth > 200:
            raise Unsupported('call depth exceeded (recursion?) at %s' % name)
        self.nframe += 1
        frame = Frame(fn, self.nframe, depth)
        body = frame.body
        # spread the last argument (closure "rust-call" ABI)
        sp = body.get('spread')
        if sp is not None and len(args) < body['argc']:
            last = args[-1]
            args = list(args[:-1]) + list(last.f)
        if len(args) != body['argc']:
            raise Unsupported('arity mismatch calling %s: %d args for %d params' % (name, len(args), body['argc']))
        for i, a in enumerate(args):
            st.mem[self.lobj(frame, i + 1)] = a
        self.callstack.append(pretty(name).split('::<')[0][-60:])
        try:
            out = self.exec_from(frame, st, 0, None, {})
            assert out is None
        except (Unsupported, JoinFail) as e:
            if not getattr(e, 'stack', None):
                e.stack = list(self.callstack)
                e.args = ((str(e.args[0]) if e.args else '') + '  [at %s]' % ' > '.join(self.callstack[-4:]),)
            raise
        finally:
            self.callstack.pop()
        # join all return states
        if not frame.retvals:
            raise Diverge()
        rv, rst = frame.retvals[0]
        for (v2, s2) in frame.retvals[1:]:
            rv = join(rv, v2, self.top)
            rst = self.join_states(rst, s2)
        st.mem = rst.mem
        # drop the frame's locals
        fid = frame.fid
        for k in [k for k in st.mem if k[0] == 'L' and k[1] == fid]:
            del st.mem[k]
        return rv

    def join_states(self, a, b, widen=False):
        if a is b:
            return a
        out = {}
        am, bm = a.mem, b.mem
        for k, va in am.items():
            vb = bm.get(k)
            if vb is None:
                continue      # object dead on one path (a StorageDead'd local): dropped
            out[k] = va if va is vb else join(va, vb, self.top, widen)
        return State(out)

    def states_equal(self, a, b):
        if set(a.mem) != set(b.mem):
            return False
        for k, va in a.mem.items():
            if not same(va, b.mem[k]):
                return False
        return True

    def ipdom(self, frame):
        fid = frame.fn['id']
        if fid in self.pdom_cache:
            return self.pdom_cache[fid]
        body = frame.body
        g = cfg(body)
        n = len(g)
        EXIT = n
        # reverse graph with a virtual exit
        rg = [[] for _ in range(n + 1)]
        succ = [list(s) for s in g] + [[]]
        for v in range(n):
            t = body['bbs'][v]['t']['k']
            if not g[v]:
                succ[v] = [EXIT]
        for v in range(n):
            for w in succ[v]:
                rg[w].append(v)
        # dominators on the reverse graph from EXIT
        order = []
        seen = [False] * (n + 1)
        stack = [(EXIT, iter(rg[EXIT]))]
        seen[EXIT] = True
        while stack:
            v, it = stack[-1]
            adv = False
            for w in it:
                if not seen[w]:
                    seen[w] = True
                    stack.append((w, iter(rg[w])))
                    adv = True
                    break
            if not adv:
                order.append(v)
                stack.pop()
        rpo = order[::-1]
        num = {v: i for i, v in enumerate(rpo)}
        idom = [None] * (n + 1)
        idom[EXIT] = EXIT

        def inter(a, b):
            while a != b:
                while num[a] > num[b]:
                    a = idom[a]
                while num[b] > num[a]:
                    b = idom[b]
            return a

        ch = True
        while ch:
            ch = False
            for v in rpo[1:]:
                ps = [p for p in succ[v] if p in num and idom[p] is not None]
                if not ps:
                    continue
                nd = ps[0]
                for p in ps[1:]:
                    nd = inter(nd, p)
                if idom[v] != nd:
                    idom[v] = nd
                    ch = True
        self.pdom_cache[fid] = idom
        return idom

    def exec_from(self, frame, st, bb, stop, active):
        """run from block bb until `stop` (returns the state there), or until the path ends (returns None).
        active: {loop-header bb: [back-edge states]} of abstract loops currently being solved"""
        body = frame.body
        bbs = body['bbs']
        while True:
            if bb == stop:
                return st
            if bb in active:
                active[bb].append(st)
                return None
            self.steps += 1
            if self.steps > self.budget:
                raise Budget()
            b = bbs[bb]
            tk = b['t']['k']
            entry = st.copy() if tk == 'sw' else None
            for s in b['s']:
                self.stmt(frame, st, s)
            t = b['t']
            if tk == 'goto':
                bb = t['t']
                continue
            if tk == 'ret':
                rv = st.mem.get(self.lobj(frame, 0), UNIT)
                frame.retvals.append((rv, st))
                return None
            if tk == 'sw':
                v = self.operand(frame, st, t['op'])
                targets = self.switch_targets(t, v)
                if len(targets) == 1:
                    bb = targets[0][0]
                    continue
                if not targets:
                    return None
                # abstract branch: fork to the immediate post-dominator, solving loops by fixpoint
                pd = self.ipdom(frame)[bb]
                join_bb = pd if pd is not None and pd < len(bbs) else None
                res = self.fork(frame, entry, bb, join_bb, active)
                if res is None:
                    return None
                st = res
                if join_bb is None:
                    return None
                bb = join_bb
                continue
            if tk == 'call' or tk == 'tailcall':
                nxt = self.call(frame, st, t)
                if nxt is None:
                    return None
                bb = nxt
                continue
            if tk == 'assert':
                self.do_assert(frame, st, t)
                bb = t['t']
                continue
            if tk == 'drop':
                self.do_drop(frame, st, t)
                bb = t['t']
                continue
            if tk == 'unr':
                return None
            if tk in ('resume', 'abort', 'cleanup'):
                return None
            if tk == 'asm':
                raise Unsupported('inline asm in %s' % frame.fn['path'])
            raise Unsupported('terminator %s' % tk)

    def switch_targets(self, t, v):
        """feasible (target bb, refined value or None) pairs"""
        if isinstance(v, Enum):
            raise Unsupported('switch on enum value')
        if not isinstance(v, AInt):
            raise Unsupported('switch on %r' % (v,))
        vals = t['v']
        if v.const is not None:
            for (val, bb) in vals:
                if val == v.const:
                    return [(bb, None)]
            return [(t['o'], None)]
        out = []
        covered = 0
        for (val, bb) in vals:
            nv = val - (1 << v.w) if (v.signed and val >> (v.w - 1)) else val
            if v.lo <= nv <= v.hi and not (val & v.kz) and (val & v.ko) == v.ko:
                out.append((bb, val))
                covered += 1
        # is the otherwise edge feasible?
        rng = v.hi - v.lo + 1
        if covered < rng:
            out.append((t['o'], None))
        # merge duplicates (several values to one block)
        seen = {}
        res = []
        for (bb, val) in out:
            if bb in seen:
                res[seen[bb]] = (bb, None)
            else:
                seen[bb] = len(res)
                res.append((bb, val))
        return res

    def fork(self, frame, entry, bb, join_bb, active):
        """entry: state at the *entry* of block bb (before its statements). Returns joined state at join_bb or None."""
        body = frame.body
        b = body['bbs'][bb]
        t = b['t']
        it = 0
        cur = entry
        while True:
            it += 1
            if it > 60:
                raise Unsupported('abstract loop did not stabilise in %s' % frame.fn['path'])
            st0 = cur.copy()
            for s in b['s']:
                self.stmt(frame, st0, s)
            v = self.operand(frame, st0, t['op'])
            targets = self.switch_targets(t, v)
            outs = []
            backs = []
            act = dict(active)
            act[bb] = backs
            nret = len(frame.retvals)
            flog = None
            if self.fork_log is not None:
                flog = dict(fn=frame.fn['path'], value=v, branches=[])
                self.fork_log.append(flog)
            for (tg, val) in targets:
                nr0 = len(frame.retvals)
                s1 = st0.copy()
                self.refine(frame, s1, t, v, val, [x for (_b, x) in targets if x is not None])
                if tg == bb:
                    backs.append(s1)
                    continue
                r = self.exec_from(frame, s1, tg, join_bb, act)
                if r is not None:
                    outs.append(r)
                if flog is not None:
                    rets = [rv for (rv, _s) in frame.retvals[nr0:]]
                    if r is not None and self.lobj(frame, 0) in r.mem:
                        rets.append(r.mem[self.lobj(frame, 0)])      # value of the return place where the branch re-joins
                    flog['branches'].append((val, rets, r is not None))
            if backs:
                nxt = cur
                for s2 in backs:
                    nxt = self.join_states(nxt, s2, widen=(it >= 3))
                if self.states_equal(nxt, cur):
                    break
                # discard the returns recorded by the non-final iteration (they are subsumed by the final one)
                del frame.retvals[nret:]
                cur = nxt
                continue
            break
        if not outs:
            return None
        r = outs[0]
        for o in outs[1:]:
            r = self.join_states(r, o)
        return r

    def refine(self, frame, st, t, v, val, others):
        """narrow the operands of the comparison that produced the switched-on value"""
        if not isinstance(v, AInt) or v.cmp is None:
            return
        op, a, b, pa, pb = v.cmp
        if op == 'discr':
            if pa is None or pa[0] not in st.mem:
                return
            try:
                cur = self.read(st, Loc(pa[0], pa[1], None))
            except Unsupported:
                return
            if cur is not a:
                return
            if val is not None and val in a.variants:
                self.write(st, Loc(pa[0], pa[1], None), Enum(a.ty, val, a.variants[val]))
            elif val is None:
                rest = {k: f for k, f in a.variants.items() if k not in others}
                if len(rest) == 1:
                    k, f = list(rest.items())[0]
                    self.write(st, Loc(pa[0], pa[1], None), Enum(a.ty, k, f))
                elif rest:
                    self.write(st, Loc(pa[0], pa[1], None), EnumAny(a.ty, rest))
            return
        if val is None:
            # otherwise-edge: for a bool this is "true" when 0 is the listed value
            if v.kz == 0xFE and others == [0]:
                truth = True
            elif v.kz == 0xFE and others == [1]:
                truth = False
            else:
                return
        else:
            if v.kz != 0xFE:
                return
            truth = bool(val)
        if not truth:
            op = {'Lt': 'Ge', 'Le': 'Gt', 'Gt': 'Le', 'Ge': 'Lt', 'Eq': 'Ne', 'Ne': 'Eq'}[op]
        if a.signed != b.signed:
            return
        na, nb = a, b
        if op == 'Lt':
            na = AInt(a.w, a.lo, min(a.hi, b.hi - 1), a.kz, a.ko, a.signed, a.term) if (b.hi > 0 or a.signed) else a
            nb = AInt(b.w, max(b.lo, a.lo + 1), b.hi, b.kz, b.ko, b.signed, b.term)
        elif op == 'Le':
            na = AInt(a.w, a.lo, min(a.hi, b.hi), a.kz, a.ko, a.signed, a.term)
            nb = AInt(b.w, max(b.lo, a.lo), b.hi, b.kz, b.ko, b.signed, b.term)
        elif op == 'Gt':
            na = AInt(a.w, max(a.lo, b.lo + 1), a.hi, a.kz, a.ko, a.signed, a.term)
            nb = AInt(b.w, b.lo, min(b.hi, a.hi - 1), b.kz, b.ko, b.signed, b.term) if (a.hi > 0 or b.signed) else b
        elif op == 'Ge':
            na = AInt(a.w, max(a.lo, b.lo), a.hi, a.kz, a.ko, a.signed, a.term)
            nb = AInt(b.w, b.lo, min(b.hi, a.hi), b.kz, b.ko, b.signed, b.term)
        elif op == 'Eq':
            lo, hi = max(a.lo, b.lo), min(a.hi, b.hi)
            na = AInt(a.w, lo, hi, a.kz | b.kz, a.ko | b.ko, a.signed, a.term)
            nb = AInt(b.w, lo, hi, a.kz | b.kz, a.ko | b.ko, b.signed, b.term)
        elif op == 'Ne':
            if b.lo == b.hi:
                if a.lo == b.lo:
                    na = AInt(a.w, a.lo + 1, a.hi, 0, 0, a.signed, a.term)
                elif a.hi == b.lo:
                    na = AInt(a.w, a.lo, a.hi - 1, 0, 0, a.signed, a.term)
            if a.lo == a.hi:
                if b.lo == a.lo:
                    nb = AInt(b.w, b.lo + 1, b.hi, 0, 0, b.signed, b.term)
                elif b.hi == a.lo:
                    nb = AInt(b.w, b.lo, b.hi - 1, 0, 0, b.signed, b.term)
        for (pl, old, new) in ((pa, a, na), (pb, b, nb)):
            if pl is None or new is old:
                continue
            obj, path = pl
            if obj in st.mem:
                try:
                    cur = self.read(st, Loc(obj, path, None))
                except Unsupported:
                    continue
                if cur is old:
                    self.write(st, Loc(obj, path, None), new)
        if T.ENABLED:
            # a refined value that *is* an input symbol (e.g. the unknown length `len`): every other copy of the
            # symbol in the state -- slice metadata, locals -- denotes the same number and takes the same bounds
            for (old, new) in ((a, na), (b, nb)):
                if new is not old and old.term is not None and old.term[0] == 's' and not old.signed:
                    for k in list(st.mem):
                        v0 = st.mem[k]
                        v1 = _refine_sym(v0, old.term, new.lo, new.hi, 0)
                        if v1 is not v0:
                            st.mem[k] = v1

    # ---------------------------------------------------------------- statements
    def stmt(self, frame, st, s):
        k = s[0]
        if k == '=':
            val = self.rvalue(frame, st, s[2], s[1])
            loc = self.place(frame, st, s[1])
            self.write(st, loc, val)
        elif k == 'dead':
            st.mem.pop(self.lobj(frame, s[1]), None)
        elif k == 'assume':
            pass
        elif k == 'setdiscr':
            loc = self.place(frame, st, s[1])
            old = self.read(st, loc)
            d = self.types[loc.ty]
            if isinstance(old, Enum) and old.variant == s[2]:
                return
            if isinstance(old, EnumAny) and s[2] in old.variants:
                self.write(st, loc, Enum(loc.ty, s[2], old.variants[s[2]]))
                return
            nf = [UNINIT for _ in d['variants'][s[2]]['f']]
            self.write(st, loc, Enum(loc.ty, s[2], nf))
        elif k == 'copy_nonoverlapping':
            src = self.operand(frame, st, s[1])
            dst = self.operand(frame, st, s[2])
            cnt = self.operand(frame, st, s[3])
            self.models['@copy_nonoverlapping'](self, frame, st, [src, dst, cnt], None)
        else:
            raise Unsupported('statement %s' % k)

    def operand(self, frame, st, o):
        k = o[0]
        if k == 'cp' or k == 'mv':
            return self.read(st, self.place(frame, st, o[1]))
        if k == 'k':
            return self.const(o[1], frame)
        if k == 'rtc':
            return TRUE if (self.ub_checks and 'UbChecks' in o[1]) else FALSE
        raise Unsupported('operand %s' % k)

    def rvalue(self, frame, st, rv, dest_place):
        from ops import binop, unop, cast
        k = rv[0]
        if k == 'use':
            return self.operand(frame, st, rv[1])
        if k == 'bin':
            a = self.operand(frame, st, rv[2])
            b = self.operand(frame, st, rv[3])
            op = rv[1]
            ii = self.int_info(rv[4])
            if isinstance(a, AInt) and isinstance(b, AInt):
                res, ovf = binop(self, op, a, b, ii[0] if ii else a.w, ii[1] if ii else False)
                if op in ('Eq', 'Ne', 'Lt', 'Le', 'Gt', 'Ge') and res.const is None:
                    pa = self.simple_place(frame, rv[2])
                    pb = self.simple_place(frame, rv[3])
                    res = abool(res.lo, res.hi, res.term, (op, a, b, pa, pb))
                if op.endswith('WithOverflow'):
                    return Struct(None, (res, ovf))
                return res
            return self.models['@ptr_binop'](self, frame, st, op, a, b, rv[4])
        if k == 'un':
            a = self.operand(frame, st, rv[2])
            if rv[1] == 'PtrMetadata':
                if isinstance(a, (Ptr, RawPtr)):
                    if a.length is not None:
                        return a.length
                    return UNIT
                raise Unsupported('PtrMetadata of %r' % (a,))
            if isinstance(a, AInt):
                return unop(self, rv[1], a)
            raise Unsupported('unary %s on %r' % (rv[1], a))
        if k == 'cast':
            a = self.operand(frame, st, rv[2])
            self.cur_state = st
            return cast(self, st, rv[1], a, rv[4], rv[3])
        if k in ('ref', 'raw'):
            loc = self.place(frame, st, rv[2])
            return self.ptr_to(loc, rv[1])
        if k == 'agg':
            vals = [self.operand(frame, st, o) for o in rv[2]]
            kd = rv[1]
            if kd[0] == 'array':
                at = self.local_type(frame, dest_place)
                return Arr(at, vals)
            if kd[0] == 'tuple':
                return Struct(None, vals)
            if kd[0] == 'closure':
                return Struct(kd[1], vals)
            if kd[0] == 'adt':
                d = self.types[kd[1]]
                if d['adt_kind'] == 'struct':
                    return Struct(kd[1], vals)
                if d['adt_kind'] == 'enum':
                    return Enum(kd[1], kd[2], vals)
                # union: one active field
                return UnionVal(kd[1], kd[3], vals[0])
            if kd[0] == 'rawptr':
                p, meta = vals
                if isinstance(meta, AInt) and isinstance(p, (Ptr, RawPtr)):
                    q = p.copy()
                    q.start = q.elem if q.elem is not None else self.usize(0)
                    q.elem = None
                    q.length = meta
                    # a thin pointer that reinterprets its target keeps doing so as a slice pointer
                    q.view = kd[1] if (p.view is not None and isinstance(p, Ptr)) else None
                    return q
                if isinstance(p, (Ptr, RawPtr)):
                    q = p.copy()
                    q.view = None if kd[1] is None else kd[1]
                    return q
                raise Unsupported('raw pointer aggregate of %r' % (p,))
            raise Unsupported('aggregate %s' % kd[0])
        if k == 'rep':
            v = self.operand(frame, st, rv[1])
            n = rv[2]
            at = self.local_type(frame, dest_place)
            if not isinstance(n, int):
                raise Unsupported('repeat with generic length')
            if n <= ARR_LIMIT:
                return Arr(at, [v] * n)
            return ArrSum(at, v, self.usize(n))
        if k == 'discr':
            v = self.read(st, self.place(frame, st, rv[1]))
            if isinstance(v, Enum):
                return self.discr_value(v.ty, v.variant, frame, dest_place)
            if isinstance(v, EnumAny):
                vs = sorted(v.variants)
                w = self.int_info(self.local_type(frame, dest_place))[0]
                if len(vs) == 1:
                    return cint(w, vs[0])
                r = AInt(w, vs[0], vs[-1])
                loc = self.place(frame, st, rv[1])
                r.cmp = ('discr', v, None, (loc.obj, loc.path) if (loc.win is None and loc.boff is None) else None, None)
                return r
            raise Unsupported('discriminant of %r' % (v,))
        if k == 'tls':
            raise Unsupported('thread local')
        raise Unsupported('rvalue %s' % k)

    def discr_value(self, ty, variant, frame, dest_place):
        w = self.int_info(self.local_type(frame, dest_place))[0]
        return cint(w, variant)

    def local_type(self, frame, place):
        t = frame.body['locals'][place[0]]
        for e in place[1:]:
            d = self.types[t]
            if e == '*':
                t = d['t']
            elif e[0] == 'f':
                t = e[2]
            elif e[0] in ('i', 'c'):
                t = d['e']
            elif e[0] in ('o', 'u'):
                t = e[1]
        return t

    def simple_place(self, frame, o):
        """(obj, path) when the operand is a plain local or a field path of one (for branch refinement)"""
        if o[0] not in ('cp', 'mv'):
            return None
        p = o[1]
        path = []
        for e in p[1:]:
            if e != '*' and e[0] == 'f':
                path.append(e[1])
            else:
                return None
        return (self.lobj(frame, p[0]), tuple(path))

    def ptr_to(self, loc, mut):
        if loc.obj[0] == 'A':
            p = RawPtr(loc.obj[1], loc.boff or 0, loc.ty)
            if loc.win is not None:
                ld = self.types[loc.ty]
                es = self.types[ld['e']].get('size') if 'e' in ld else 1
                if loc.win[0].const is None:
                    raise Unsupported('abstract window into constant')
                p.off += loc.win[0].const * es
                p.start = self.usize(0)
                p.length = loc.win[1]
            if loc.path:
                raise Unsupported('reference to abstract-index element of a constant')
            return p
        vw = loc.ty if loc.viewed else None
        if loc.meta is not None:
            return Ptr(loc.obj, loc.path, None, loc.meta, None, vw, mut)
        if loc.win is not None:
            return Ptr(loc.obj, loc.path, loc.win[0], loc.win[1], None, vw, mut)
        # pointer to an array element reached by index: keep it as (array path, elem) so that ptr.add works
        if loc.path and not isinstance(loc.path[-1], int) and loc.path[-1][0] in ('i', 'i?'):
            last = loc.path[-1]
            idx = self.usize(last[1]) if last[0] == 'i' else last[1]
            return Ptr(loc.obj, loc.path[:-1], None, None, idx, vw, mut)
        return Ptr(loc.obj, loc.path, None, None, None, vw, mut)

    # ---------------------------------------------------------------- terminators
    def do_assert(self, frame, st, t):
        c = self.operand(frame, st, t['c'])
        m = t['m']
        exp = 1 if t['e'] else 0
        kind = m['k']
        desc = self.assert_desc(frame, t)
        if not isinstance(c, AInt):
            raise Unsupported('assert on %r' % (c,))
        if c.const is not None:
            if c.const != exp:
                self.obligation(frame, kind, desc, t['l'], True, 'condition is always violated: %s' % self.assert_vals(frame, st, m))
                raise Diverge()
            self.obligation(frame, kind, desc, t['l'], False)
            return
        # abstract condition: try the kind-specific argument on the operands
        ok = False
        why = ''
        if kind == 'BoundsCheck':
            ln = self.operand(frame, st, m['len'])
            ix = self.operand(frame, st, m['index'])
            ok = ix.hi < ln.lo
            why = 'index %r vs len %r' % (ix, ln)
        else:
            why = self.assert_vals(frame, st, m)
        self.obligation(frame, kind, desc, t['l'], not ok, why)
        # continue on the success edge with the refined condition
        if c.cmp is not None:
            fake = {'v': [[0, -1]], 'o': -2}
            self.refine(frame, st, None, c, exp, [0])

    def assert_desc(self, frame, t):
        m = t['m']
        parts = [m['k']]
        if 'op' in m:
            parts.append(m['op'])
        for key in ('len', 'index', 'a', 'b'):
            if key in m and isinstance(m[key], list):
                parts.append(self.op_desc(frame, m[key]))
        return ' '.join(parts)

    def op_desc(self, frame, o):
        if o[0] in ('cp', 'mv'):
            names = dict((l, n) for l, n in frame.body.get('names', []))
            p = o[1]
            s = names.get(p[0], '_%d' % p[0])
            return s + place_str(p)[len('_%d' % p[0]):]
        return op_str(o)

    def assert_vals(self, frame, st, m):
        out = []
        for key in ('len', 'index', 'a', 'b'):
            if key in m and isinstance(m[key], list):
                try:
                    out.append('%s=%r' % (key, self.operand(frame, st, m[key])))
                except Exception:
                    pass
        return ', '.join(out)

    def do_drop(self, frame, st, t):
        if t.get('noop') or 'inst' not in t:
            return
        loc = self.place(frame, st, t['p'])
        p = self.ptr_to(loc, True)
        try:
            self.call_fn(t['inst'], [p], st, frame.depth + 1)
        except Diverge:
            raise

    def call(self, frame, st, t):
        """returns the next block, or None if the call diverges"""
        if 'f' not in t:
            fv = self.operand(frame, st, t['fop'])
            if isinstance(fv, FnVal):
                callee = fv.callee
            else:
                raise Unsupported('indirect call through %r' % (fv,))
        else:
            callee = t['f']
        args = [self.operand(frame, st, a) for a in t['a']]
        name = callee.get('path') or callee['decl']
        self.cur_dest_ty = self.local_type(frame, t['d']) if 'd' in t else None
        self.cur_state = st
        try:
            rv = self.invoke(frame, st, callee, name, args, t)
        except Diverge:
            return None
        if t.get('t') is None:
            return None
        loc = self.place(frame, st, t['d'])
        self.write(st, loc, rv)
        return t['t']

    def invoke(self, frame, st, callee, name, args, t):
        if is_panic_sink(name):
            self.obligation(frame, 'panic-call', self.panic_desc(name, t), t['l'], True,
                            'call to %s is reachable' % name)
            raise Diverge()
        if self.summaries and name in self.summaries:
            return self.summarise(frame, st, callee, name, args)
        mdl = self.models.get(name)
        if mdl is None and callee.get('intrinsic'):
            mdl = self.models.get('#' + callee['intrinsic'])
        if mdl is not None:
            return mdl(self, frame, st, args, callee)
        if name.startswith('core::core_arch::'):
            return self.cpu_intrinsic(frame, st, args, callee, name)
        inst = callee.get('inst')
        if inst is not None:
            if (callee.get('trait') or '').startswith('core::ops::function::Fn') and len(args) == 2 and \
                    self.m.fn(inst).get('def_kind') == 'Closure' and isinstance(args[1], Struct):
                args = [args[0]] + list(args[1].f)      # "rust-call" ABI: untuple the arguments
            return self.call_fn(inst, args, st, frame.depth + 1)
        if callee.get('intrinsic'):
            raise Unsupported('intrinsic %s has no model' % callee['intrinsic'])
        if callee.get('ctor'):
            # a tuple-struct / tuple-variant constructor used as a function value
            rt = self.cur_dest_ty
            if 'ctor_variant' in callee:
                return Enum(rt, callee['ctor_variant'], args)
            return Struct(rt, args)
        if name.endswith('::getauxval') and callee.get('foreign'):
            return self.top(self.cur_dest_ty)      # cpufeatures' hardware-capability query: any value
        gm = self.models.get('@generic')
        r = gm(self, frame, st, args, callee, name)
        if r is not NotImplemented:
            return r
        raise Unsupported('call to %s has no body and no model' % name)

    def summarise(self, frame, st, callee, name, args):
        """treat a callee as an uninterpreted function of its arguments (term engine)"""
        rt = self.cur_dest_ty
        ts = []
        spec = self.summaries[name]
        deep = isinstance(spec, tuple)        # ('deep', tag): pointer arguments stand for the *contents* they point to
        canon = (lambda t: t)
        if getattr(self, 'bitcanon', False):
            import bitform
            canon = bitform.recanon
        if deep and spec[0] == 'inplace':
            # fn(state: &mut [W; N] / &mut [W]) -> (): the words are replaced by the outputs of a multi-output opaque
            # function of the words (arguments in bit-level canonical form, see bitform.py)
            pty = self.m.fn(callee['inst'])['mir']['locals'][1]
            loc = self.deref(args[0], self.types[pty]['t'], st)
            v = self.read(st, loc)
            if not isinstance(v, Arr) or not all(isinstance(e, AInt) for e in v.e):
                raise Unsupported('in-place summary of %s on %r' % (name, v))
            leaves = []
            _leaf_terms(v, leaves)
            leaves = [canon(x) for x in leaves]
            outs = T.tuple_fn(('pw:' if spec[0] == 'inplace' and len(spec) > 2 and spec[2] == 'pw' else 'fn:') + spec[1], [e.w for e in v.e], leaves)
            self.write(st, loc, Arr(v.ty, [topint(e.w, e.signed, o) for e, o in zip(v.e, outs)]))
            return UNIT
        for ai, a in enumerate(args):
            if isinstance(a, AInt):
                ts.append(a.term if a.term is not None else (T.const(a.w, a.const) if a.const is not None else None))
            elif isinstance(a, Ptr) and deep:
                pty = self.m.fn(callee['inst'])['mir']['locals'][ai + 1]
                v = self.read(st, self.deref(a, self.types[pty]['t'], st))
                leaves = []
                _leaf_terms(v, leaves)
                ts.append(None if any(x is None for x in leaves) else T.op('mem', 0, *leaves))
            elif isinstance(a, (Ptr, RawPtr)):
                ts.append(T.sym('&%s' % (self.ptr_name(a),), 0))
            elif deep and isinstance(a, (Arr, Struct)):
                leaves = []
                _leaf_terms(a, leaves)
                ts.extend(leaves)
            else:
                ts.append(getattr(a, 'term', None))
        ii = self.int_info(rt)
        okts = all(t is not None for t in ts)
        v = self.top(rt)
        sname = ('pw:' if deep and len(spec) > 2 and spec[2] == 'pw' else 'fn:') + (spec[1] if deep else spec)
        if isinstance(v, AInt):
            return v.with_term(T.op(sname, ii[0], *ts) if okts else None)
        if isinstance(v, Arr) and okts:
            if deep and all(isinstance(e, AInt) for e in v.e):
                outs = T.tuple_fn(sname, [e.w for e in v.e], [canon(x) for x in ts])
                return Arr(v.ty, [e.with_term(o) for e, o in zip(v.e, outs)])
            return Arr(v.ty, [e.with_term(T.op('%s#%d' % (sname, i), e.w, *ts)) if isinstance(e, AInt) else e
                              for i, e in enumerate(v.e)])
        return v

    def ptr_name(self, p):
        if isinstance(p, RawPtr):
            return '%s+%d' % (self.alloc_name(p.aid), p.off)
        nm = p.obj[1] if p.obj[0] == 'P' else str(p.obj)
        return '%s%s' % (nm, ''.join('.%s' % (x,) for x in p.path))

    def panic_desc(self, name, t):
        return name.split('::')[-1] + (' via ' + ' '.join(t['x'])[:60] if t.get('x') else '')


def _refine_sym(v, term, lo, hi, depth):
    """intersect with [lo, hi] every unsigned integer in v whose term is the symbol `term`"""
    if isinstance(v, AInt):
        if v.term is term and (v.lo < lo or v.hi > hi) and not v.signed:
            return AInt(v.w, max(v.lo, lo), min(v.hi, hi), v.kz, v.ko, v.signed, v.term)
        return v
    if depth > 6:
        return v
    if isinstance(v, Ptr):
        nl = _refine_sym(v.length, term, lo, hi, depth + 1) if v.length is not None else None
        ns = _refine_sym(v.start, term, lo, hi, depth + 1) if v.start is not None else None
        ne = _refine_sym(v.elem, term, lo, hi, depth + 1) if v.elem is not None else None
        if nl is v.length and ns is v.start and ne is v.elem:
            return v
        p = v.copy()
        p.length, p.start, p.elem = nl, ns, ne
        return p
    if isinstance(v, (Struct, Enum)):
        nf = [_refine_sym(x, term, lo, hi, depth + 1) for x in v.f]
        if all(x is y for x, y in zip(nf, v.f)):
            return v
        return Struct(v.ty, nf) if isinstance(v, Struct) else Enum(v.ty, v.variant, nf)
    if isinstance(v, ArrSum):
        nn = _refine_sym(v.n, term, lo, hi, depth + 1)
        return v if nn is v.n else ArrSum(v.ty, v.elem, nn)
    if isinstance(v, Arr) and len(v.e) <= 8:
        ne = [_refine_sym(x, term, lo, hi, depth + 1) for x in v.e]
        if all(x is y for x, y in zip(ne, v.e)):
            return v
        return Arr(v.ty, ne)
    return v


def _leaf_terms(v, out):
    if isinstance(v, AInt):
        out.append(v.term if v.term is not None else (T.const(v.w, v.const) if v.const is not None else None))
    elif isinstance(v, (Struct, Enum)):
        for x in v.f:
            _leaf_terms(x, out)
    elif isinstance(v, Arr):
        for x in v.e:
            _leaf_terms(x, out)
    else:
        out.append(getattr(v, 'term', None))


def drop_term(v):
    if isinstance(v, AInt) and v.term is not None:
        return v.with_term(None)
    return v


# ---------------------------------------------------------------- extra value kinds
class RawPtr:
    """pointer into a raw constant allocation"""
    __slots__ = ('aid', 'off', 'view', 'start', 'length', 'elem', 'mut', 'null', 'eunit')

    def __init__(self, aid, off, view, start=None, length=None, elem=None, eunit=None):
        self.eunit = eunit      # bytes per unit of the abstract element index `elem`
        self.aid = aid
        self.off = off
        self.view = view
        self.start = start
        self.length = length
        self.elem = elem
        self.mut = False
        self.null = False

    def copy(self):
        return RawPtr(self.aid, self.off, self.view, self.start, self.length, self.elem, self.eunit)

    def same(self, o):
        return isinstance(o, RawPtr) and self.aid == o.aid and self.off == o.off and self.view == o.view and \
            V._same(self.start, o.start) and V._same(self.length, o.length) and V._same(self.elem, o.elem)

    def __repr__(self):
        return '&const[%s+%d]' % (self.aid, self.off)


def _ptr_copy(self):
    return Ptr(self.obj, self.path, self.start, self.length, self.elem, self.view, self.mut, self.null)


Ptr.copy = _ptr_copy


class UnionVal:
    """a union value with one active field"""
    __slots__ = ('ty', 'active', 'v')

    def __init__(self, ty, active, v):
        self.ty = ty
        self.active = active
        self.v = v

    def same(self, o):
        return isinstance(o, UnionVal) and self.active == o.active and same(self.v, o.v)

    def __repr__(self):
        return 'U%d(%r)' % (self.active, self.v)


class RawArr:
    """a large constant array left in its raw allocation (decoded element-wise on demand)"""
    __slots__ = ('ty', 'aid', 'off', 'n', 'es')

    def __init__(self, ty, aid, off, n, es):
        self.ty = ty
        self.aid = aid
        self.off = off
        self.n = n
        self.es = es

    def same(self, o):
        return isinstance(o, RawArr) and (self.aid, self.off, self.ty) == (o.aid, o.off, o.ty)

    def __repr__(self):
        return 'RawArr[%d]' % self.n
