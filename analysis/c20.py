"""C20 -- encrypt/decrypt are total (no panic / overflow / bounds / debug assertion) and hence profile independent.

Engine L2: the abstract interpreter runs every public encrypt / decrypt root (backend single-block, parallel,
tail and in-place entry points on unknown data, with separate and with aliased buffers; threefish u64 API;
bc_encrypt) from the *invariant established by the constructors* of the type (join of the abstract results of
KeyInit::new, new_from_slice for every accepted length, inherent constructors and conversions; partitioned on
constant scalar fields such as Twofish.start).  Every panic edge met is an obligation:

   MIR Assert (overflow, bounds, division, debug-only) . calls into core::panicking / *_fail / unwrap_failed .
   model preconditions (SIMD load/store bounds, aligned-access alignment)

discharged iff it cannot fail in the abstract state of *any* visit.  The dev profile has overflow checks and
debug assertions on, so "no such edge can fire" is exactly "release computes the same value".

 E  engine canaries (analysis/canary.py, roots/src/canary.rs): 12 pairs of tiny functions with a known verdict -- the
    interpreter must flag every `bad_*` and discharge every `good_*` on every run, so an engine that stopped seeing a
    class of panic edge fails the check instead of passing vacuously.
 W  the BelT wide-block functions: belt_wblock_enc / belt_wblock_dec on a buffer of *every* length >= 32 at once
    (c18.all_lengths: the length is an unknown in [32, isize::MAX] carried as a linear term; slice bounds that are
    relational in the length are decided from the linear normal forms) -- result Ok, every panic edge discharged.
"""
import json, os
from facts import *
import ctor

REVIEWED = os.path.join(os.path.dirname(os.path.abspath(__file__)), 'c20_reviewed.json')


def load_reviewed():
    if os.path.exists(REVIEWED):
        return {r['key']: r for r in json.load(open(REVIEWED))}
    return {}


def run(chk, facts_by_config):
    chk.trusted += ['rustc MIR construction (dev profile: overflow checks + debug assertions are explicit Assert terminators)',
                    'core integer semantics as modelled in analysis/ops.py', 'purity of CPU value intrinsics',
                    'constructors / Clone / From are the only ways to obtain an instance (C12 K: clones are field-wise)']
    reviewed = load_reviewed()
    res = ctor.run_all(facts_by_config, lens=ctor.lens_for_tier(chk.tier), cfg_filter=True)
    import c18, canary
    for cfgname, F in facts_by_config.items():
        if cfgname not in ctor.BASE_CONFIGS:
            continue          # canaries and the BelT wide block do not depend on cfg flags
        canary.report(chk, cfgname, F.mono)
        for fname in ('belt_wblock_enc', 'belt_wblock_dec'):
            if 'verif_root__belt_block__free__' + fname not in F.mono.roots:
                chk.fail_closed('W-wblock-total', '%s|%s' % (cfgname, fname), 'root for %s missing' % fname)
                continue
            c18.report_all_lengths(chk, 'W-wblock-total', c18.all_lengths(F.mono, cfgname, fname))
    for cfgname in facts_by_config:
        chk.configs.append(cfgname)
        n_sites = 0
        n_types = 0
        for (c, p), r in sorted(res.items()):
            if c != cfgname:
                continue
            if 'crashed' in r:
                chk.fail_closed('analysis', '%s|%s' % (cfgname, p), 'analysis crashed: %s' % r['crashed'][-300:])
                continue
            tyname = r['ty']
            n_types += 1
            for op in ('enc', 'dec'):
                o = r.get(op)
                if o is None:
                    continue
                if o['status'] not in ('ok',):
                    chk.fail_closed('entry', '%s|%s|%s|%s' % (cfgname, tyname, op, o['status']),
                                    '%s %s root could not be analysed to completion (%s): %s' % (
                                        tyname, op, o['status'], o.get('why', 'every path diverges (certain panic)')))
            for u in r['unsupported']:
                if u['run'].startswith(('enc', 'dec', 'encrypt', 'decrypt', 'bc_encrypt')):
                    chk.fail_closed('unmodelled', '%s|%s|%s' % (cfgname, tyname, u['run']),
                                    '%s %s: %s' % (tyname, u['run'], u['why'][:300]))
            for k, s in sorted(r['use_sites'].items()):
                n_sites += 1
                key = '%s|%s|%s' % (cfgname, tyname, k)
                if s['fails'] == 0:
                    chk.ok('panic-edge', key, dict(type=tyname, fn=s['fn'], kind=s['kind'], site=s['desc'], visits=s['visits'])
                           if n_sites % 97 == 0 else None)
                elif k in reviewed:
                    chk.assume_reviewed([k], reviewed)
                else:
                    chk.violation('panic-edge', key,
                                  '%s: %s in %s (%s:%s) can fire: %s  [runs: %s]' % (
                                      tyname, s['desc'], s['fn'], s.get('loc'), s['line'], s['why'][:300], ', '.join(s['fail_runs'][:3])),
                                  dict(site=s))
        chk.floor('panic-edge', n_sites, 'sites.' + cfgname)
        chk.floor('types', n_types, 'types.' + cfgname)
    chk.extra['reviewed_residuals'] = len(reviewed)
