"""debug helper: pretty-print a MIR body from the facts"""
import sys, json
from facts import *

def dump_body(f, types=None):
    print('fn', f.get('full') or f['path'], '@', f.get('span'))
    m = f['mir']
    for i, t in enumerate(m['locals']):
        print('   let _%d: %s' % (i, types[t]['s'] if types else t))
    for bi, b in enumerate(m['bbs']):
        if b.get('cleanup'): continue
        print(' bb%d:' % bi)
        for s in b['s']:
            if s[0] == '=':
                print('    %s = %s' % (place_str(s[1]), rv_str(s[2])))
            elif s[0] == 'dead': pass
            else:
                print('    ', s)
        t = b['t']
        if t['k'] == 'call':
            print('    %s = call %s(%s) -> bb%s   [%s]' % (place_str(t['d']), callee_name(t), ', '.join(op_str(a) for a in t['a']), t['t'], t.get('f',{}).get('gargs')))
        elif t['k'] == 'sw':
            print('    switch %s %s else bb%d' % (op_str(t['op']), t['v'], t['o']))
        elif t['k']=='assert':
            print('    assert %s == %s (%s) -> bb%d' % (op_str(t['c']), t['e'], t['m']['k'], t['t']))
        elif t['k']=='drop':
            print('    drop %s -> bb%d inst=%s' % (place_str(t['p']), t['t'], t.get('inst')))
        else:
            print('    ', {k:v for k,v in t.items() if k!='l'})

def rv_str(rv):
    k = rv[0]
    if k == 'use': return op_str(rv[1])
    if k == 'ref': return '&%s%s' % ('mut ' if rv[1] else '', place_str(rv[2]))
    if k == 'raw': return '&raw %s%s' % ('mut ' if rv[1] else 'const ', place_str(rv[2]))
    if k == 'cast': return '%s as <%s> (%s)' % (op_str(rv[2]), rv[3], rv[1])
    if k == 'bin': return '%s(%s, %s)' % (rv[1], op_str(rv[2]), op_str(rv[3]))
    if k == 'un': return '%s(%s)' % (rv[1], op_str(rv[2]))
    if k == 'agg': return 'agg %s [%s]' % (rv[1], ', '.join(op_str(o) for o in rv[2]))
    if k == 'rep': return '[%s; %s]' % (op_str(rv[1]), rv[2])
    if k == 'discr': return 'discr(%s)' % place_str(rv[1])
    return str(rv)

if __name__ == '__main__':
    cfgname, pat = sys.argv[1], sys.argv[2]
    F = Facts(cfgname)
    if len(sys.argv) > 3 and sys.argv[3] == 'crate':
        for c in F.crates():
            for f in c.fn_list:
                if pat in f['path']:
                    dump_body(f, c.types)
    else:
        for f in F.mono.fns:
            if f and pat in f['full']:
                dump_body(f, F.mono.types)
