"""C12 rule D' -- converted instances carry the same keys as freshly keyed ones (engine L3).

For every `From<Enc>` / `From<&Enc>` conversion T <- S between rooted cipher types, with one symbolic key k:
        T::new(k)      and      T::from(S::new(k))   /   T::from(&S::new(k))
are interpreted with Herbrand terms (key-expansion intrinsics are uninterpreted functions) and must yield the same term
for every scalar / vector leaf of the instance.  The CPU-feature token is partitioned: both runs are made once with the
detection result forced to `true` and once to `false` (the cpufeatures-generated accessors are recognised by their
macro expansion), so the union arm is concrete in each run.  Together with C15 (the functions computed depend on the
instance state only) this proves "a converted instance computes the same function as a freshly keyed one".
"""
from facts import *
import equiv, engine
import terms as T
from values import *
from interp import State, Ptr, UnionVal
from c11_pad import value_terms

CPUFEATURES_MACRO = 'Macro(Bang, "cpufeatures::new")'


def leaf_terms(I, v, out, path=''):
    from simd import Vec
    if isinstance(v, AInt):
        out.append((path, v.term if v.term is not None else (T.const(v.w, v.const) if v.const is not None else None)))
    elif isinstance(v, Vec):
        out.append((path, v.term))
    elif isinstance(v, (Struct, Enum)):
        for i, x in enumerate(v.f):
            leaf_terms(I, x, out, '%s.%d' % (path, i))
    elif isinstance(v, Arr):
        for i, x in enumerate(v.e):
            leaf_terms(I, x, out, '%s[%d]' % (path, i))
    elif isinstance(v, UnionVal):
        out.append((path + '#arm', T.const(8, v.active if v.active is not None else 255)))
        leaf_terms(I, v.v, out, '%s.arm%s' % (path, v.active))
    elif isinstance(v, Opaque):
        out.append((path, v.term))
    elif isinstance(v, Uninit):
        out.append((path, T.const(8, 0)))
    else:
        out.append((path, getattr(v, 'term', None)))


def force_token(I, m, value):
    """model the cpufeatures-generated accessors as returning a fixed detection result"""
    names = set()
    for f in m.fns:
        if CPUFEATURES_MACRO in f.get('expn', []) and f.get('name') in ('get', 'init_get', 'init'):
            names.add((f['path'], f.get('name')))
    for (path, nm) in names:
        if nm == 'get':
            I.models[path] = (lambda v: (lambda I_, fr, st, a, c: TRUE if v else FALSE))(value)
        elif nm == 'init_get':
            def mk(v):
                def f(I_, fr, st, a, c):
                    rt = I_.cur_dest_ty
                    d = I_.types[rt]
                    return Struct(rt, [I_.zst(d['f'][0]) if I_.types[d['f'][0]].get('size') == 0 else I_.top(d['f'][0]), TRUE if v else FALSE])
                return f
            I.models[path] = mk(value)
    return names


def run_rule_E(chk, cfgname, m):
    """E -- the encrypt-only / decrypt-only / combined types of one family compute the same function for the same key:
    for every pair of types connected by a From conversion and every direction both implement, the public
    encrypt (decrypt) entry point, run on the instance `new(k)` builds from one symbolic key and on one symbolic block,
    stores identical output terms -- under each forced CPU-feature outcome."""
    from ops import flatten
    n = 0
    new_roots = {info['pub_path']: inst for nm, info, inst in m.roots_of(op='new')}
    ops_roots = {d: {info['pub_path']: inst for nm, info, inst in m.roots_of(op=d)} for d in ('enc', 'dec')}
    parent = {}

    def find(x):
        while parent.setdefault(x, x) != x:
            x = parent[x]
        return x
    for op in ('from', 'from_ref'):
        for name, info, inst in m.roots_of(op=op):
            parent[find(info['pub_path'])] = find(info['src'])
    fams = {}
    for x in list(parent):
        fams.setdefault(find(x), set()).add(x)
    with equiv.TermMode():
        for root, members in sorted(fams.items()):
            members = sorted(m_ for m_ in members if m_ in new_roots)
            for d in ('enc', 'dec'):
                having = [m_ for m_ in members if m_ in ops_roots[d]]
                if len(having) < 2:
                    continue
                # reference: the combined type (implements both directions) if there is one
                ref = sorted(having, key=lambda t: (not (t in ops_roots['enc'] and t in ops_roots['dec']), t))[0]
                for token in (True, False):
                    outs = {}
                    skip = False
                    for t in having:
                        engine._INTERPS.clear()
                        I = engine.mk_interp(m, 60_000_000)
                        forced = force_token(I, m, token)
                        if not forced and not token:
                            skip = True
                            break
                        fnew = m.fn(new_roots[t])
                        st = State()
                        args = engine.default_args(I, st, fnew)
                        s1, inst_v = engine.run(I, new_roots[t], args, st)
                        if s1 != 'ok':
                            outs[t] = ('fc', 'new: %s %s' % (s1, str(inst_v)[:150]))
                            continue
                        froot = m.fn(ops_roots[d][t])
                        I.fresh += 1
                        cobj = ('P', 'cipher', I.fresh)
                        st2 = State()
                        st2.mem[cobj] = inst_v
                        inout_ty = m.ty(froot['mir']['locals'][2])
                        block_ty = [I.types[fd['t']]['t'] for fd in inout_ty['variants'][0]['f'] if I.types[fd['t']]['k'] == 'ptr'][0]
                        I.entry_state = st2
                        x = equiv.sym_block(I, block_ty, 'x')
                        I.entry_state = None
                        a1, out1 = equiv.inout_arg(I, st2, froot, x, 'e')
                        s2, r = engine.run(I, ops_roots[d][t], [Ptr(cobj, (), None, None, None, None, False), a1], st2)
                        if s2 != 'ok':
                            outs[t] = ('fc', '%s: %s %s' % (d, s2, str(r)[:150]))
                            continue
                        outs[t] = ('ok', [b.term for b in (flatten(I, st2.mem[out1], block_ty) or [])])
                    if skip:
                        continue
                    for t in having:
                        if t == ref:
                            continue
                        n += 1
                        key = '%s|%s~%s|E|%s|token=%s' % (cfgname, t, ref, d, token)
                        a, b = outs.get(ref), outs.get(t)
                        if a is None or b is None or a[0] != 'ok' or b[0] != 'ok':
                            chk.fail_closed('E-same-function', key, '%s / %s: %s' % (ref, t, (a if a and a[0] != 'ok' else b)))
                            continue
                        bad = [i for i, (p, q) in enumerate(zip(a[1], b[1])) if p is None or q is None or p is not q]
                        if bad or len(a[1]) != len(b[1]) or not a[1]:
                            chk.violation('E-same-function', key,
                                          '%s and %s built from the same key do not %srypt a block to the same value (detection result %s): byte %s: %s' % (
                                              t, ref, d, token, bad[0] if bad else '?',
                                              T.first_diff(b[1][bad[0]], a[1][bad[0]]) if bad else 'shape'))
                        else:
                            chk.ok('E-same-function', key, dict(types=[t, ref], direction=d, detection=token, bytes=len(a[1])) if n % 6 == 1 else None)
    return n


def run_rule(chk, cfgname, m):
    n = 0
    new_roots = {info['pub_path']: inst for nm, info, inst in m.roots_of(op='new')}
    with equiv.TermMode():
        for op in ('from', 'from_ref'):
            for name, info, inst in m.roots_of(op=op):
                dst, src = info['pub_path'], info['src']
                if dst not in new_roots or src not in new_roots:
                    continue
                for token in (True, False):
                    n += 1
                    key = '%s|%s<-%s%s|token=%s' % (cfgname, dst, '&' if op == 'from_ref' else '', src, token)
                    engine._INTERPS.clear()
                    I = engine.mk_interp(m, 30_000_000)
                    forced = force_token(I, m, token)
                    if not forced and not token:
                        continue      # no run-time detection in this configuration: one partition only
                    f_new_dst = m.fn(new_roots[dst])
                    st = State()
                    args = engine.default_args(I, st, f_new_dst)
                    keyobj = args[0].obj
                    kval = st.mem[keyobj]
                    s1, a = engine.run(I, new_roots[dst], args, st)
                    st2 = State()
                    st2.mem[keyobj] = kval
                    s2, sv = engine.run(I, new_roots[src], [args[0]], st2)
                    if s1 != 'ok' or s2 != 'ok':
                        chk.fail_closed("D'-same-keys", key + '|new', 'constructors: %s / %s %s' % (s1, s2, str(a if s1 != 'ok' else sv)[:200]))
                        continue
                    if op == 'from_ref':
                        I.fresh += 1
                        sobj = ('P', 'src', I.fresh)
                        st2.mem[sobj] = sv
                        carg = Ptr(sobj, (), None, None, None, None, False)
                    else:
                        carg = sv
                    s3, b = engine.run(I, inst, [carg], st2)
                    if s3 != 'ok':
                        chk.fail_closed("D'-same-keys", key + '|from', '%s %s' % (s3, str(b)[:200]))
                        continue
                    la, lb = [], []
                    leaf_terms(I, a, la)
                    leaf_terms(I, b, lb)
                    diff = [(pa, ta, tb) for (pa, ta), (pb, tb) in zip(la, lb) if ta is None or ta is not tb]
                    if len(la) != len(lb) or diff:
                        d = diff[0] if diff else ('<shape>', None, None)
                        chk.violation("D'-same-keys", key,
                                      '%s::from(%s%s::new(k)) and %s::new(k) differ (detection result %s) at %s: %s' % (
                                          dst, '&' if op == 'from_ref' else '', src, dst, token, d[0],
                                          T.first_diff(d[2], d[1]) if diff else 'different shapes (%d vs %d leaves)' % (len(la), len(lb))))
                    else:
                        chk.ok("D'-same-keys", key, dict(conversion='%s <- %s%s' % (dst, '&' if op == 'from_ref' else '', src),
                                                        detection=token, leaves=len(la)) if n % 12 == 1 else None)
    return n
