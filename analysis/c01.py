"""C01 -- decryption inverts encryption.

Decided by engine L3 (Herbrand terms = global value numbering with a fixed cancellation rewrite system; no solver,
no concrete input): for each rooted cipher type whose backend is the cipher type itself, `encrypt_block` is
interpreted on a symbolic block x and a symbolic instance (one symbol per field element; constant scalar fields
such as Twofish.start / Cast5.small_key are partitioned by the values the constructors can establish), its
output terms are fed to `decrypt_block` on the *same* instance, and the normalised result must be the term x --
and the other order.  Round keys are opaque symbols, S-box lookups are uninterpreted `sel(table, index)` terms:
nothing about the key schedule or the tables is assumed except that both directions read the same instance.
For the four Triple-DES types Des::encrypt / Des::decrypt are summarised as an opaque inverse pair, which makes
the proof exactly "decryption is the mirrored composition" (clause a).

Bit-level mode (engine L3b, bitform.py; table BITLEVEL below): the fixsliced software AES, Serpent, the DES core and
GIFT need GF(2)-affine reasoning (bit permutations, bitsliced linear layers) and bitsliced S-boxes; their S-box pairs
are first proved mutually inverse by truth tables and then used as position-wise opaque inverse pairs.

Types whose inverse relies on algebra outside both rewrite systems (AES-NI / ARMv8 AES, ARIA, IDEA, Kuznyechik,
48/96-bit Speck words on a wider carrier) are reported as *undecided*, not as passes.

BelT wide block: belt_wblock_dec(belt_wblock_enc(d)) = d and the other order are proved the same way on a symbolic
buffer for every enumerated length (quick: 32..=49, 63..65, 100; thorough: 32..=129, 255..257); other lengths are not
decided (the cost of the term proof grows quadratically with the length).
"""
import os
from facts import *
import equiv
import terms as T
from values import *

# families the rewrite system is expected to close (confirmed on the reference tree); anything else is "undecided"
EXPECTED_UNDECIDED_ADTS = {
    'aes::autodetect', 'aes::ni', 'aes::armv8', 'idea::Idea', 'kuznyechik::Kuznyechik',
    'kuznyechik::KuznyechikEnc', 'kuznyechik::KuznyechikDec',
}
# pure helper functions treated as uninterpreted functions of their arguments (the identity holds for any such function)
SUMMARIES = {
    'twofish::Twofish': {'twofish::Twofish::g_func': 'twofish_g'},
}
# ---- bit-level mode (engine L3b, bitform.py): types whose inverse needs GF(2)-affine reasoning (bit permutations,
# bitsliced linear layers) and bitsliced S-boxes.  For each listed pair (f, g) of *position-wise* functions the lemma
#     g(f(u)) = u   and   f(g(u)) = u        (truth tables of the two circuits, a complete normal form)
# is proved first; then f and g are summarised as an opaque position-wise inverse pair and the round trip is compared
# in bit-level canonical form.  Pairs are looked up by function name inside the crate; a crate whose functions of that
# name are gone is reported undecided (not a violation), a pair that exists but is not an inverse pair is a violation.
BITLEVEL = {
    'aes::soft': dict(crate='aes', pairs=[('sub_bytes', 'inv_sub_bytes')], kind='inplace', words=8),
    'serpent::Serpent': dict(crate='serpent', pairs=[('sbox_e%d' % k, 'sbox_d%d' % k) for k in range(8)], kind='value', words=4),
    'des::des::Des': dict(crate='des', pairs=[], kind=None, words=0),
    'gift_cipher::Gift128': dict(crate='gift_cipher', pairs=[], kind=None, words=0),
    # ARIA decrypts with the encryption routine on a second key array dk = (ek reversed, inner keys through the
    # diffusion layer): the instance must be the one KeyInit::new builds (ctor=True); the diffusion layer is an affine
    # involution (carry-free multiplications become byte placements) and SB1/SB3, SB2/SB4 are inverse constant tables
    'aria::Aria': dict(crate='aria', pairs=[], kind=None, words=0, ctor=True),
    # 24- and 48-bit Speck words live in u32 / u64: rotations leave stale high bits that the next mask removes
    'speck_cipher::Speck48_72': dict(crate='speck_cipher', pairs=[], kind=None, words=0),
    'speck_cipher::Speck48_96': dict(crate='speck_cipher', pairs=[], kind=None, words=0),
    'speck_cipher::Speck96_96': dict(crate='speck_cipher', pairs=[], kind=None, words=0),
    'speck_cipher::Speck96_144': dict(crate='speck_cipher', pairs=[], kind=None, words=0),
}


def bitlevel_spec(tyname):
    for a, spec in BITLEVEL.items():
        if tyname == a or tyname.startswith(a + '::') or tyname.startswith(a + '<'):
            return spec
    return None


def pw_lemma(m, f1, f2, kind, n):
    """f2(f1(u)) = u for n symbolic words u, decided by truth tables.  (True|False|None, detail)"""
    import engine, bitform
    from interp import State, Ptr
    if True:
        equiv.fresh_terms()
        I = engine.mk_interp(m, 5_000_000)
        I.summaries = None
        I.bitcanon = False
        st = State()
        pty = I.types[f1['mir']['locals'][1]]
        sty = pty['t'] if kind == 'inplace' else f1['mir']['locals'][1]
        w = I.types[I.types[sty]['e']]['w']
        us = [topint(w, False, T.sym('u%d' % i, w)) for i in range(n)]
        if kind == 'inplace':
            I.fresh += 1
            obj = ('P', 'u', I.fresh)
            st.mem[obj] = Arr(sty, us)
            p = Ptr(obj, (), I.usize(0), I.usize(n), None, None, True)
            for f in (f1, f2):
                status, r = engine.run(I, f['id'], [p], st)
                if status != 'ok':
                    return None, '%s: %s %s' % (f['name'], status, str(r)[:200])
            outs = [e.term for e in st.mem[obj].e]
        else:
            v = Arr(sty, us)
            for f in (f1, f2):
                status, v = engine.run(I, f['id'], [v], st)
                if status != 'ok' or not isinstance(v, Arr):
                    return None, '%s: %s %s' % (f['name'], status, str(v)[:200])
            outs = [e.term for e in v.e]
        if any(o is None for o in outs):
            return None, 'outputs are not terms'
        try:
            tabs, vt = bitform.truth_tables(outs, [u.term for u in us])
        except bitform.NotPure as e:
            return None, 'not a position-wise boolean circuit (%s)' % e
        bad = [i for i in range(n) if tabs[i] != vt[i]]
        if bad:
            return False, '%s(%s(u)) does not restore word %d of u (truth tables differ)' % (f2['name'], f1['name'], bad[0])
        return True, '%d words, %d-row truth tables' % (n, 1 << n)


def bitlevel_setup(m, spec):
    """prove the lemmas; returns (summaries dict, pw inverse dict, lemma records) or (None, None, reason, verdict)"""
    fns = {}
    for f in m.fns:
        if f['crate'] == spec['crate'] and f.get('def_kind') in ('Fn', 'AssocFn') and 'impl_trait' not in f:
            fns.setdefault(f.get('name'), []).append(f)
    summaries, inv, recs = {}, {}, []
    for (a, b) in spec['pairs']:
        if len(fns.get(a, [])) != 1 or len(fns.get(b, [])) != 1:
            return None, None, 'functions %s / %s not found (%d / %d instances)' % (a, b, len(fns.get(a, [])), len(fns.get(b, []))), None
        fa, fb = fns[a][0], fns[b][0]
        for (x, y) in ((fa, fb), (fb, fa)):
            ok, detail = pw_lemma(m, x, y, spec['kind'], spec['words'])
            recs.append(dict(lemma='%s(%s(u)) = u' % (y['name'], x['name']), ok=ok, detail=detail))
            if ok is False:
                return None, None, detail, False
            if ok is None:
                return None, None, 'lemma %s(%s(u)) = u: %s' % (y['name'], x['name'], detail), None
        ta, tb = '%s.%s' % (spec['crate'], a), '%s.%s' % (spec['crate'], b)
        k = 'inplace' if spec['kind'] == 'inplace' else 'deep'
        summaries[fa['path']] = (k, ta, 'pw')
        summaries[fb['path']] = (k, tb, 'pw')
        inv['pw:' + ta] = 'pw:' + tb
        inv['pw:' + tb] = 'pw:' + ta
    return summaries, inv, recs, True


TDES = ('des::tdes::TdesEde3', 'des::tdes::TdesEee3', 'des::tdes::TdesEde2', 'des::tdes::TdesEee2')


def expected_undecided(tyname, cfgflags=()):
    if tyname.startswith('kuznyechik::') and any('compact_soft' in c for c in cfgflags):
        return False      # one key array serves both directions: the word-level engine closes the proof
    return any(tyname == a or tyname.startswith(a + '::') or tyname.startswith(a + '<') for a in EXPECTED_UNDECIDED_ADTS)


def ctor_self_builder(m, ty_s):
    """the instance KeyInit::new builds from a symbolic key"""
    def build(I, ty):
        import engine
        from interp import State
        news = [f for f in m.fns if f.get('impl_trait') == 'crypto_common::KeyInit' and f.get('name') == 'new'
                and f['crate'] in REPO_CRATES and m.ty(f['mir']['locals'][0])['s'] == ty_s]
        if not news:
            raise Exception('no KeyInit::new for the type')
        st0 = State()
        args = engine.default_args(I, st0, news[0])
        status, v = engine.run(I, news[0]['id'], args, st0)
        if status != 'ok':
            raise Exception('KeyInit::new: %s %s' % (status, str(v)[:150]))
        return v
    return build


def self_builder(group_key):
    def build(I, ty):
        v = I.top(ty, 'self')
        if group_key and isinstance(v, Struct):
            f = list(v.f)
            for (idx, c) in group_key:
                if isinstance(f[idx], AInt):
                    f[idx] = cint(f[idx].w, c, f[idx].signed)
            v = Struct(v.ty, f)
        return v
    return build


_FACTS = {}


def prove_type(job):
    cfgname, fdir, ty_s, tyname, group_keys = job
    if fdir not in _FACTS:
        _FACTS.clear()
        _FACTS[fdir] = Facts(cfgname, fdir)
    m = _FACTS[fdir].mono
    out = []
    with equiv.TermMode():
        T.INVERSES.clear()
        import engine
        for gk in (group_keys or [[]]):
            gk = [tuple(x) for x in gk if x[0] != 'conv'] if gk and gk[0] != 'conv' else []
            bl = bitlevel_spec(tyname)
            bl_sum = bl_inv = None
            lemmas = []
            if bl is not None:
                bl_sum, bl_inv, lemmas, verdict = bitlevel_setup(m, bl)
                if bl_sum is None:
                    # verdict False: a listed pair is not an inverse pair (violation); None: undecided
                    out.append(dict(group=[list(x) for x in gk], first='enc', ok=(False if verdict is False else None),
                                    detail=lemmas, bitlevel=True, lemma_failed=verdict is False))
                    continue
            for first in ('enc', 'dec'):
                import bitform
                equiv.fresh_terms()
                I = engine.mk_interp(m, 60_000_000 if bl else 30_000_000)
                I.bitcanon = bl is not None
                T.BITCANON = bl is not None
                if bl is not None:
                    I.summaries = dict(bl_sum)
                    bitform.PW_INVERSES.update(bl_inv)
                elif tyname in TDES:
                    I.summaries = {'des::des::Des::encrypt': 'desE', 'des::des::Des::decrypt': 'desD'}
                    T.INVERSES.update({'fn:desE': 'fn:desD', 'fn:desD': 'fn:desE'})
                else:
                    I.summaries = SUMMARIES.get(tyname)
                try:
                    ok, detail = equiv.roundtrip(m, ty_s, ctor_self_builder(m, ty_s) if (bl and bl.get('ctor')) else self_builder(gk), first)
                except Exception as e:
                    import traceback
                    ok, detail = False, 'analysis error: %r %s' % (e, traceback.format_exc()[-300:])
                finally:
                    I.bitcanon = False
                    T.BITCANON = False
                out.append(dict(group=[list(x) for x in gk], first=first, ok=ok, detail=detail, bitlevel=bl is not None,
                                lemmas=[l['lemma'] for l in lemmas] if bl else None))
    return (cfgname, tyname, out)


BASE_CONFIGS = ('x64', 'a64', 'x86')
CFG_CRATES = ('aes', 'kuznyechik', 'serpent')
WBLOCK_QUICK = list(range(32, 42)) + [47, 48, 49, 63, 64, 65]
WBLOCK_THOROUGH = list(range(32, 130)) + [255, 256, 257]


def prove_wblock(job):
    cfgname, fdir, n = job
    if fdir not in _FACTS:
        _FACTS.clear()
        _FACTS[fdir] = Facts(cfgname, fdir)
    F = _FACTS[fdir]
    out = []
    with equiv.TermMode():
        for first in ('enc', 'dec'):
            try:
                ok, detail = equiv.wblock_roundtrip(F.mono, n, first)
            except Exception as e:
                ok, detail = False, 'analysis error: %r' % e
            out.append((first, ok, detail))
    return (cfgname, n, out)


def run(chk, facts_by_config):
    import multiprocessing as mp
    import ctor
    chk.trusted += ['the rewrite rules of analysis/terms.py (bit-vector / ring identities)', 'rustc MIR construction',
                    'core integer semantics as modelled', 'Des::decrypt inverts Des::encrypt (for the Triple-DES clause; itself proved for des::Des by the bit-level engine)',
                    'the GF(2)-affine normal form and the truth-table normal form of analysis/bitform.py',
                    'constant tables are immutable (C15 E2): A[B[x]] = x is read off the two constant tables']
    res = ctor.run_all(facts_by_config, lens=ctor.lens_for_tier('quick'))
    import canary
    for cfgname, F in facts_by_config.items():
        if cfgname in BASE_CONFIGS:
            canary.report_pw(chk, cfgname, F.mono)
    jobs = []
    for cfgname, F in facts_by_config.items():
        chk.configs.append(cfgname)
        for t in F.roots_info['types']:
            tyname = pretty(t['ty'])
            if cfgname not in BASE_CONFIGS and t['crate'] not in CFG_CRATES:
                continue       # only these crates have cfg-dependent code; the others are covered in the base configuration
            r = res.get((cfgname, t['pub_path']), {})
            gks = r.get('group_keys') or [[]]
            gks = [g for g in gks if not (g and g[0] == 'conv')] or [[]]
            jobs.append((cfgname, F.dir, t['ty'], tyname, gks))
    wjobs = [(c, F.dir, n) for c, F in facts_by_config.items() if c in ('x64', 'a64', 'x86')
             for n in (WBLOCK_THOROUGH if chk.tier == 'thorough' else WBLOCK_QUICK)]
    wjobs.sort(key=lambda j: -j[2])
    with mp.Pool(min(16, os.cpu_count() or 4)) as pool:
        wasync = pool.map_async(prove_wblock, wjobs, chunksize=1)
        results = pool.map(prove_type, jobs, chunksize=1)
        wresults = wasync.get()
    for (cfgname, n, outs) in sorted(wresults):
        for (first, ok, detail) in outs:
            key = '%s|belt_wblock|len=%d|%s-first' % (cfgname, n, first)
            if ok:
                chk.ok('wblock-roundtrip', key, dict(length=n, order=first + ' first', proved=detail) if n in (32, 33) else None)
            elif ok is None:
                chk.fail_closed('wblock-roundtrip', key, detail)
            else:
                chk.violation('wblock-roundtrip', key, 'belt_wblock %s(%s(d)) = d on a %d-byte buffer could not be established by value numbering: %s' % (
                    'dec' if first == 'enc' else 'enc', first, n, detail[:300]))
    proved = {}
    for (cfgname, tyname, outs) in sorted(results):
        n_ok = sum(1 for o in outs if o['ok'])
        none = all(o['ok'] is None for o in outs)
        for o in outs:
            key = '%s|%s|%s-first%s' % (cfgname, tyname, o['first'], '|' + str(o['group']) if o['group'] else '')
            if o.get('lemma_failed'):
                chk.violation('sbox-inverse-lemma', '%s|%s|lemma' % (cfgname, tyname),
                              '%s: the bitsliced S-box pair is not an inverse pair: %s' % (tyname, o['detail']))
                continue
            if o.get('bitlevel') and o['ok'] is None and 'lemma_failed' in o:
                if not any(u.startswith(tyname + ': ') for u in chk.undecided):
                    chk.undecided.append('%s: bit-level mode not applicable (%s)' % (tyname, o['detail']))
                proved.setdefault(cfgname, set()).add(tyname)     # counted for the floor: the anchor vanished, the type did not
                continue
            if o['ok']:
                chk.ok('roundtrip-identity', key, dict(type=tyname, order='%s then %s' % (o['first'], 'dec' if o['first'] == 'enc' else 'enc'),
                                                      group=o['group'], proved=o['detail'],
                                                      engine='bit-level (GF(2)-affine normal form + S-box lemmas)' if o.get('bitlevel') else 'word-level terms',
                                                      lemmas=o.get('lemmas')) if o['first'] == 'enc' else None)
                proved.setdefault(cfgname, set()).add(tyname)
            elif o['ok'] is None or expected_undecided(tyname, facts_by_config[cfgname].meta['cfg']['cfg']):
                if not any(u.startswith(tyname + ': ') for u in chk.undecided):
                    chk.undecided.append('%s: %s' % (tyname, 'backend type differs from the cipher type (inverse keys are separate data)'
                                                     if o['ok'] is None else 'inverse relies on algebra outside the rewrite system'))
            else:
                chk.violation('roundtrip-identity', key,
                              '%s: %s(%s(x)) = x could not be established by value numbering: %s' % (
                                  tyname, 'dec' if o['first'] == 'enc' else 'enc', o['first'], str(o['detail'])[:400]))
    for cfgname in facts_by_config:
        chk.floor('proved-types', len(proved.get(cfgname, ())), 'proved.' + cfgname)
    chk.extra['proved_types'] = {c: sorted(v) for c, v in proved.items()}
