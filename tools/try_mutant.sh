#!/bin/bash
# usage: tools/try_mutant.sh <patch.diff> <ID> [<ID>...]
# Apply a seeded patch in a scratch worktree of /repo's HEAD (never in /repo), run the named checks against that tree
# through VERIF_REPO (own cache / evidence directories), remove the worktree.
P=$(readlink -f "$1"); shift
W=/tmp/mut/wt-$$
mkdir -p /tmp/mut
git -C /repo worktree prune
git -C /repo worktree add -f --detach $W HEAD >/dev/null 2>&1 || { echo "cannot create worktree"; exit 2; }
( cd $W && git apply "$P" ) || { echo "patch does not apply"; git -C /repo worktree remove --force $W; exit 2; }
cd /verif
for id in "$@"; do
  VERIF_REPO=$W VERIF_CACHE=/tmp/mut/cache VERIF_SCRATCH=/tmp/mut/scratch-$$ VERIF_EVIDENCE=/tmp/mut/evidence-$$ \
    ./verif check $id ${TIER:+--tier $TIER} 2>&1 | tail -${TAIL:-12}
done
git -C /repo worktree remove --force $W
rm -rf /tmp/mut/scratch-$$ /tmp/mut/evidence-$$
