"""C13 -- weak-key screening flags exactly the degenerate keys.

Engine L3 + a bit-level reading of the decision terms (no key is ever enumerated):
 A  AES: `weak_key_test` of every AES type has exactly one data-dependent decision; its operand is an OR-reduction
    whose zero-set is read off the term ("zero iff every key bit in S is zero"); S must be exactly the first N/2
    key bytes, and the zero outcome must be the error.
 D  Des: the decision operand is an OR of equality atoms  (key restricted to demanded bits) == constant.  Each atom
    must demand exactly the 56 non-parity bits (the parity bit of every byte must not be demanded -- the cipher ignores
    it), and the set of demanded constants must be exactly the 64 NIST SP 800-67 weak / semi-weak / possibly-weak keys
    (generated intensionally in analysis/spec_des_weak.py, never copied from the code).
 T  Triple-DES: the atoms are exactly { wk(part j) } for every 8-byte part plus { part a = part b on the non-parity bits }
    for every pair of parts.
 N  every other cipher type: weak_key_test returns Ok for every key (the abstract result is the constant Ok);
    no type overrides `new_checked` (the provided one is weak_key_test(key)?; Ok(new(key))).
"""
import re
from facts import *
import equiv, engine
import terms as T
from values import *
from interp import State
from ops import flatten
from spec_des_weak import nist_weak_keys


def collect_or(t, out):
    """leaves of a BitOr tree; zero-extension is transparent (u64::from(x), u8::from(bool))"""
    if t[0] == 'BitOr':
        for a in t[2:]:
            collect_or(a, out)
        return
    if t[0] == 'cat':
        # strip constant-zero high parts
        parts = list(t[2])
        hi = 0
        while len(parts) > 1 and parts[-1][0][0] == 'c' and parts[-1][0][2] == 0:
            hi += parts[-1][2]
            parts.pop()
        if hi and len(parts) == 1 and parts[0][1] == 0 and parts[0][2] == T.width(parts[0][0]) and parts[0][0][0] == 'BitOr':
            collect_or(parts[0][0], out)
            return
    out.append(t)


def bits_of(t, keybit):
    """per-bit description of a term: ('k', key byte index, bit) | ('c', 0/1) | None"""
    w = T.width(t)
    out = []
    for (a, lo, ln) in (t[2] if t[0] == 'cat' else ((t, 0, w),)):
        if a[0] == 'c':
            out += [('c', (a[2] >> (lo + i)) & 1) for i in range(ln)]
        elif id(a) in keybit:
            out += [('k', keybit[id(a)], lo + i) for i in range(ln)]
        elif a[0] == 'BitXor' and len(a) == 4:
            xa, xb = bits_of(a[2], keybit), bits_of(a[3], keybit)
            for i in range(ln):
                p, q = xa[lo + i], xb[lo + i]
                if p is not None and q is not None and p[0] == 'k' and q[0] == 'k':
                    out.append(('x', p, q))        # the XOR of two key bits
                elif p is not None and q is not None and p[0] == 'c' and q[0] == 'c':
                    out.append(('c', p[1] ^ q[1]))
                else:
                    out.append(None)
        else:
            out += [None] * ln
    return out


def new_checked_differs(m, pub_path):
    """None if the overriding new_checked can fail exactly when weak_key_test can and its Ok payload is new(key), leaf for leaf"""
    import equiv, engine
    import terms as T
    from interp import State, _leaf_terms
    from values import Enum, EnumAny
    roots = {}
    for op in ('new', 'weak_key_test', 'new_checked'):
        r = [inst for nm, info, inst in m.roots_of(op=op) if info['pub_path'] == pub_path]
        if not r:
            return 'no %s root' % op
        roots[op] = r[0]
    with equiv.TermMode():
        res = {}
        karg = None
        for op in ('new', 'weak_key_test', 'new_checked'):
            engine._INTERPS.clear()
            I = engine.mk_interp(m, 30_000_000)
            st = State()
            f = m.fn(roots[op])
            args = engine.default_args(I, st, f)
            status, r = engine.run(I, roots[op], args, st)
            if status != 'ok':
                return '%s could not be interpreted (%s %s)' % (op, status, str(r)[:120])
            res[op] = r

        def variants(v):
            if isinstance(v, Enum):
                return {v.variant: v.f}
            if isinstance(v, EnumAny):
                return dict(v.variants)
            return None
        vw, vc = variants(res['weak_key_test']), variants(res['new_checked'])
        if vw is None or vc is None:
            return 'results are not Result values'
        if set(vw) != set(vc):
            return 'it can return %s while weak_key_test can return %s' % (
                sorted('Ok' if k == 0 else 'Err' for k in vc), sorted('Ok' if k == 0 else 'Err' for k in vw))
        want, got = [], []
        _leaf_terms(res['new'], want)
        _leaf_terms(vc[0][0], got)
        if len(want) != len(got):
            return 'the Ok payload has a different shape from new(key)'
        for i, (g, w) in enumerate(zip(got, want)):
            if g is None or g is not w:
                return 'leaf %d of the Ok payload is %s; new(key) has %s' % (i, T.show(g, 0, 3) if g is not None else 'not a term', T.show(w, 0, 3))
    return None


def run(chk, facts_by_config):
    chk.trusted += ['the rewrite rules of analysis/terms.py', 'NIST SP 800-67 weak-key characterisation as encoded in analysis/spec_des_weak.py']
    nist = nist_weak_keys()          # set of 8-byte tuples with odd parity
    nist_masked = {tuple(b & 0xFE for b in k) for k in nist}
    for cfgname, F in facts_by_config.items():
        chk.configs.append(cfgname)
        m = F.mono
        counts = dict(aes=0, des=0, other=0)
        with equiv.TermMode():
            for name, info, inst in m.roots_of(op='weak_key_test'):
                tyname = pretty(info['ty'])
                root = m.fn(inst)
                I = engine.mk_interp(m, 5_000_000)
                I.fork_log = []
                st = State()
                args = engine.default_args(I, st, root)
                status, r = engine.run(I, inst, args, st)
                forks = I.fork_log
                I.fork_log = None
                base = '%s|%s' % (cfgname, tyname)
                if status != 'ok':
                    chk.fail_closed('analysis', base + '|' + status, '%s::weak_key_test: %s %s' % (tyname, status, str(r)[:200]))
                    continue
                kv = st.mem[args[0].obj]
                kty = m.ty(root['mir']['locals'][1])['t']
                kb = flatten(I, kv, kty)
                keybit = {id(b.term): i for i, b in enumerate(kb)}
                nkey = len(kb)
                is_aes = tyname.startswith('aes::')
                is_des = tyname.startswith('des::')
                if not is_aes and not is_des:
                    counts['other'] += 1
                    if isinstance(r, Enum) and r.variant == 0 and not forks:
                        chk.ok('N-never-fails', base, dict(type=tyname, result='Ok for every key') if counts['other'] % 20 == 1 else None)
                    else:
                        chk.violation('N-never-fails', base + '|N', '%s::weak_key_test can fail (%r): only AES and DES types define weak keys' % (tyname, r))
                    continue
                # the single data-dependent decision
                dec = [f for f in forks if isinstance(f['value'], AInt) and f['value'].term is not None]
                if len(forks) != 1 or len(dec) != 1:
                    chk.violation('A-aes-upper-half' if is_aes else 'D-des-table', base + '|forks',
                                  '%s::weak_key_test has %d data-dependent decisions (expected exactly one OR-reduced test)' % (tyname, len(forks)))
                    continue
                fk = dec[0]
                term = fk['value'].term
                outcome = {}
                for (val, rets, _cont) in fk['branches']:
                    vs = set(rv.variant for rv in rets if isinstance(rv, Enum))
                    outcome[val] = vs
                zero_res = outcome.get(0)
                other_res = outcome.get(None)
                if is_aes:
                    counts['aes'] += 1
                    leaves = []
                    collect_or(term, leaves)
                    S = set()
                    okshape = True
                    for lf in leaves:
                        for b in bits_of(lf, keybit):
                            if b is None:
                                okshape = False
                            elif b[0] == 'k':
                                S.add((b[1], b[2]))
                            elif b[1] != 0:
                                okshape = False
                    want = {(j, b) for j in range(nkey // 2) for b in range(8)}
                    if not okshape:
                        chk.violation('A-aes-upper-half', base + '|shape', '%s::weak_key_test: the tested value is not an OR-reduction of key bits: %s' % (tyname, T.show(term, 0, 4)))
                    elif S != want:
                        miss = sorted(set(j for j, _ in want - S))
                        extra = sorted(set(j for j, _ in S - want))
                        chk.violation('A-aes-upper-half', base + '|bytes',
                                      '%s::weak_key_test tests key bytes %s; the upper half is bytes 0..%d (missing %s, extra %s)' % (
                                          tyname, sorted(set(j for j, _ in S)), nkey // 2 - 1, miss, extra))
                    elif zero_res != {1} or other_res != {0}:
                        chk.violation('A-aes-upper-half', base + '|polarity', '%s::weak_key_test: all-zero upper half gives %s, otherwise %s' % (tyname, zero_res, other_res))
                    else:
                        chk.ok('A-aes-upper-half', base, dict(type=tyname, fails_iff='key[0..%d] all zero' % (nkey // 2)))
                    continue
                # ---- DES / TDES
                counts['des'] += 1
                leaves = []
                collect_or(term, leaves)
                if zero_res != {0} or other_res != {1}:
                    chk.violation('D-des-table', base + '|polarity', '%s::weak_key_test: no atom true gives %s, some atom true gives %s' % (tyname, zero_res, other_res))
                    continue
                nparts = nkey // 8
                wk = {j: set() for j in range(nparts)}
                eqs = set()
                bad = None
                parity_demanded = False
                for lf in leaves:
                    if lf[0] != 'Eq':
                        bad = 'atom is not an equality: %s' % T.show(lf, 0, 3)
                        break
                    xa, xb = bits_of(lf[2], keybit), bits_of(lf[3], keybit)
                    if any(b is None for b in xa + xb) or len(xa) != len(xb):
                        bad = 'atom compares something other than key bits and constants: %s' % T.show(lf, 0, 3)
                        break
                    # (k_a ^ k_b) == 0  is  k_a == k_b
                    pairs = []
                    for a, b in zip(xa, xb):
                        if a[0] == 'x' and b == ('c', 0):
                            pairs.append((a[1], a[2]))
                        elif b[0] == 'x' and a == ('c', 0):
                            pairs.append((b[1], b[2]))
                        elif a[0] == 'x' or b[0] == 'x':
                            bad = 'an atom compares the XOR of key bits with something other than zero'
                        else:
                            pairs.append((a, b))
                    if bad:
                        break
                    xa, xb = [p[0] for p in pairs], [p[1] for p in pairs]
                    kk = [(a, b) for a, b in zip(xa, xb) if a[0] == 'k' and b[0] == 'k']
                    kc = [(a, b) if a[0] == 'k' else (b, a) for a, b in zip(xa, xb) if (a[0] == 'k') != (b[0] == 'k')]
                    cc = [(a, b) for a, b in zip(xa, xb) if a[0] == 'c' and b[0] == 'c']
                    if any(a[1] != b[1] for a, b in cc):
                        continue        # unsatisfiable atom: contributes nothing
                    if kk and kc:
                        bad = 'mixed atom'
                        break
                    if kc:
                        parts = set(a[1] // 8 for a, _ in kc)
                        if len(parts) != 1:
                            bad = 'a table comparison spans several key parts'
                            break
                        j = parts.pop()
                        demanded = {(a[1] % 8, a[2]): b[1] for a, b in kc}
                        if any(bit == 0 for (_by, bit) in demanded):
                            parity_demanded = True
                        if set(demanded) - {(by, bit) for by in range(8) for bit in range(8)}:
                            bad = 'odd demanded bits'
                            break
                        nonpar = {(by, bit) for by in range(8) for bit in range(1, 8)}
                        if not nonpar <= set(demanded):
                            bad = 'a table comparison does not test all 56 key bits of the part'
                            break
                        keyv = tuple(sum(demanded[(by, bit)] << bit for bit in range(1, 8)) for by in range(8))
                        wk[j].add((keyv, tuple(demanded.get((by, 0)) for by in range(8))))
                    elif kk:
                        pa = set(a[1] // 8 for a, _ in kk)
                        pb = set(b[1] // 8 for _, b in kk)
                        if len(pa) != 1 or len(pb) != 1 or any(a[1] % 8 != b[1] % 8 or a[2] != b[2] for a, b in kk):
                            bad = 'an equality atom does not compare two key parts position by position'
                            break
                        bitsd = {(a[1] % 8, a[2]) for a, _ in kk}
                        if any(bit == 0 for (_by, bit) in bitsd):
                            parity_demanded = True
                        if not {(by, bit) for by in range(8) for bit in range(1, 8)} <= bitsd:
                            bad = 'a part-equality atom does not compare all 56 key bits'
                            break
                        eqs.add(frozenset((pa.pop(), pb.pop())))
                if bad:
                    chk.violation('D-des-table', base + '|shape', '%s::weak_key_test: %s' % (tyname, bad))
                    continue
                okt = True
                for j in range(nparts):
                    got = {kv_ for (kv_, _par) in wk[j]}
                    if got != nist_masked:
                        okt = False
                        miss = sorted(nist_masked - got)[:2]
                        extra = sorted(got - nist_masked)[:2]
                        chk.violation('D-des-table', base + '|table|part%d' % j,
                                      '%s::weak_key_test: part %d is compared with %d keys; they are not the 64 NIST weak/semi-weak/possibly-weak keys '
                                      '(missing e.g. %s, extra e.g. %s)' % (tyname, j, len(got), [bytes(k).hex() for k in miss], [bytes(k).hex() for k in extra]))
                want_eqs = {frozenset((a, b)) for a in range(nparts) for b in range(a + 1, nparts)}
                if eqs != want_eqs:
                    okt = False
                    chk.violation('T-tdes-parts', base + '|pairs', '%s::weak_key_test compares the part pairs %s; required: every pair %s' % (
                        tyname, sorted(map(sorted, eqs)), sorted(map(sorted, want_eqs))))
                if parity_demanded:
                    okt = False
                    chk.violation('D-parity-insensitive', base + '|parity',
                                  '%s::weak_key_test compares the parity bit of key bytes: a weak key with different parity bits (e.g. the all-zero '
                                  'key, which keys the same cipher as 0101..01) is not flagged' % tyname)
                if okt:
                    chk.ok('D-des-table', base, dict(type=tyname, parts=nparts, table_keys=64, pair_equalities=len(eqs), parity_bits='not demanded'))
        for k, v in counts.items():
            chk.floor(k, v, '%s.%s' % (k, cfgname))
        # new_checked is never overridden
        for name, info, inst in m.roots_of(op='new_checked'):
            root = m.fn(inst)
            calls = [t for (_b, t, c) in m.callees(root) if t['k'] == 'call' and t.get('f', {}).get('inst') is not None]
            tyname = pretty(info['ty'])
            if calls and calls[0]['f'].get('crate') in REPO_CRATES:
                # an override must still be  weak_key_test(key)?; Ok(new(key))  : compared by terms with the provided behaviour
                why = new_checked_differs(m, info['pub_path'])
                if why:
                    chk.violation('N-new-checked', '%s|%s|new_checked' % (cfgname, tyname),
                                  '%s overrides KeyInit::new_checked and it is not `weak_key_test(key)?; Ok(new(key))`: %s' % (tyname, why))
                else:
                    chk.ok('N-new-checked', '%s|%s' % (cfgname, tyname), dict(type=tyname, overrides='new_checked', equals='weak_key_test(key)?; Ok(new(key)) by terms'))
            else:
                chk.ok('N-new-checked', '%s|%s' % (cfgname, tyname))
