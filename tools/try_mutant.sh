#!/bin/bash
# usage: tools/try_mutant.sh <patch.diff> <ID> [<ID>...]   -- apply a seeded patch to /repo, run checks, undo
P=$1; shift
cd /repo && git apply "$P" || { echo "patch does not apply"; exit 2; }
cd /verif
for id in "$@"; do ./verif check $id ${TIER:+--tier $TIER} 2>&1 | tail -${TAIL:-12}; done
git -C /repo checkout -- . ; git -C /repo status --short | head -3
