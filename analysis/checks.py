"""Registry: property id -> (module, level, technique, configurations per tier)."""
import importlib, sys, traceback
import pipeline
from facts import Facts, FactError
from framework import Check

Z_QUICK = ['x64-all', 'x64-soft-all', 'x64-tfnc-z']
Z_THOROUGH = Z_QUICK + ['x64-alt1-all', 'x64-alt2-all', 'x64-aesni-all', 'a64-all', 'a64-soft-all', 'x86-all',
                        'x86-soft-all', 'x86-alt1-all']

A_QUICK = ['x64', 'x64-all', 'x64-soft-all']
A_THOROUGH = A_QUICK + ['x64-soft', 'x64-alt1-all', 'x64-alt2-all', 'x64-aesni-all', 'a64', 'a64-all', 'a64-soft-all',
                        'x86-all', 'x86-soft-all', 'x86-alt1-all']

B_QUICK = ['x64', 'x64-all', 'x64-soft-all', 'x64-alt1-all', 'x64-alt2-all']
B_THOROUGH = B_QUICK + ['x64-soft', 'x64-alt1', 'x64-alt2', 'x64-aesni-all', 'a64', 'a64-all', 'a64-soft-all', 'x86-all',
                        'x86-soft-all', 'x86-alt1-all']

REGISTRY = {
    'C02': dict(module='c02', level='other', technique='truth-table lemma: the bitsliced S-box circuits are the FIPS-197 S-box (generated from its definition); bit-level (GF(2)-affine) normal form of the block routine on a symbolic key and block compared with the FIPS-197 KeyExpansion / Cipher / InvCipher pseudo-code over the same symbols',
                quick=['x64', 'x64-soft', 'x64-alt1'], thorough=['x64', 'x64-soft', 'x64-alt1', 'x86-soft-all', 'x86-alt1-all', 'a64-soft-all', 'a64']),
    'C17': dict(module='c17', level='other', technique='dispatch-shape rule over resolved MIR; per-lane term equality / key-lane dependence by global value numbering; mix-column inverse and round-consistency identities for the bitsliced implementation in bit-level canonical form',
                quick=['x64-all', 'x64-soft-all', 'x64-soft-aesni-all', 'x64-alt1-all'], thorough=['x64-all', 'x64-soft-all', 'x64-soft-aesni-all', 'x64-aesni-all', 'x64-alt1-all', 'a64-all', 'a64-soft-all', 'x86-all', 'x86-alt1-all']),
    'C04': dict(module='c04', level='other', technique='override-discipline and InOut dataflow rules; per-lane term equality (global value numbering, bit-level canonical form for fixslice) of parallel and single-block routines',
                quick=['x64', 'x64-soft', 'x64-alt1'], thorough=['x64', 'x64-soft', 'x64-alt1', 'x64-alt2', 'a64', 'a64-soft-all', 'x86', 'x86-soft-all', 'x86-alt1-all']),
    'C03': dict(module='c03', level='other', technique='normalised-MIR equality across feature sets; global value numbering across the serpent_no_unroll and aes_compact configurations (bit-level canonical form)',
                quick=['x64', 'x64-all', 'x64-alt1', 'x64-alt1-all', 'x64-soft'], thorough=['x64', 'x64-all', 'x64-alt1', 'x64-alt1-all', 'x64-soft', 'x64-soft-all', 'x64-alt2', 'x64-alt2-all', 'a64', 'a64-all', 'x86', 'x86-all']),
    'C14': dict(module='c14', level='other', technique='delegation-shape and who-may-call rules over resolved monomorphic MIR; global value numbering of the expansion routines against the reference ExpandKey with the state permutation uninterpreted',
                quick=['x64-all'], thorough=['x64-all', 'a64-all', 'x86-all']),
    'C13': dict(module='c13', level='proof', technique='global value numbering of weak_key_test + bit-level reading of its single decision term against the NIST characterisation',
                quick=['x64', 'x64-soft-all'], thorough=['x64', 'x64-soft-all', 'x64-alt1', 'a64', 'a64-soft-all', 'x86']),
    'C05': dict(module='c05', level='other', technique='global value numbering of constructors and block functions with DES helpers as uninterpreted functions, compared with the SP 800-67 composition terms',
                quick=['x64', 'x64-all'], thorough=['x64', 'x64-all', 'a64', 'x86']),
    'C01': dict(module='c01', level='other', technique='global value numbering (Herbrand terms + cancellation rewrites; GF(2)-affine bit-level normal form and truth-table lemmas for bitsliced S-boxes) over abstractly interpreted MIR: dec(enc(x)) == x as a term identity',
                quick=['x64', 'x64-soft', 'x64-alt1', 'x64-alt2'], thorough=['x64', 'x64-soft', 'x64-alt1', 'x64-alt2', 'a64', 'x86', 'x86-soft-all']),
    'C18': dict(module='c18', level='other', technique='abstract interpretation of belt_wblock_enc/dec: every short length (store-free rejection), all lengths >= 32 at once with a relational (linear-term + interval) length; global value numbering against the reference round',
                quick=['x64', 'x64-all'], thorough=['x64', 'x64-all', 'a64', 'x86']),
    'C20': dict(module='c20', level='proof', technique='abstract interpretation of monomorphic MIR (intervals x known-bits, constant propagation with unrolling) discharging every panic edge',
                quick=['x64', 'x64-soft', 'x64-alt1', 'x64-alt2'], thorough=['x64', 'x64-soft', 'x64-alt1', 'x64-alt2', 'a64', 'a64-soft-all', 'x86', 'x86-soft-all', 'x86-alt1-all']),
    'C11': dict(module='c11', level='proof', technique='abstract interpretation of every constructor for every key length 0..=300 and [301, usize::MAX]; global value numbering for padding equivalence',
                quick=['x64'], thorough=['x64', 'x64-soft', 'x64-alt1', 'x64-alt2', 'a64', 'x86']),
    'C19': dict(module='c19', level='proof', technique='use analysis of `self` + string constant propagation over formatting MIR (static analysis)',
                quick=['x64', 'x64-soft-all'], thorough=['x64', 'x64-all', 'x64-soft-all', 'x64-alt1-all', 'x64-alt2-all', 'a64', 'a64-soft-all', 'x86-all', 'x86-alt1-all']),
    'C12': dict(module='c12', level='other', technique='dominator / provenance dataflow over MIR; global value numbering of converted vs. freshly constructed instances',
                quick=B_QUICK, thorough=B_THOROUGH),
    'C15': dict(module='c15', level='proof', technique='effect / ownership analysis over the whole-program call graph (static analysis)',
                quick=A_QUICK, thorough=A_THOROUGH),
    'C16': dict(module='c16', level='proof', technique='must-coverage dataflow over drop-glue MIR (static analysis)',
                quick=Z_QUICK, thorough=Z_THOROUGH),
}


def run(pid, tier):
    if pid not in REGISTRY:
        print('unknown or unclaimed property', pid)
        return 2
    r = REGISTRY[pid]
    chk = Check(pid, tier, r['level'], r['technique'])
    try:
        cfgs = r[tier]
        dirs = pipeline.export_many(cfgs, jobs=6)
        facts = {c: Facts(c, dirs[c]) for c in cfgs}
        mod = importlib.import_module(r['module'])
        mod.run(chk, facts) if tier == 'quick' or not hasattr(mod, 'run_thorough') else mod.run_thorough(chk, facts)
    except pipeline.ExportError as e:
        print(str(e)[-3000:])
        chk.fail_closed('export', 'export', 'fact export failed: /repo does not build in a required configuration')
    except FactError as e:
        chk.fail_closed('facts', 'facts', str(e))
    except Exception as e:
        traceback.print_exc()
        chk.fail_closed('internal', 'internal', 'analysis crashed: %r' % (e,))
    return chk.finish()
