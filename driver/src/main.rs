// verif-driver: a rustc_private driver that exports facts about the type-checked
// program (ADTs, impls, statics, aliases, MIR bodies with resolved callees and
// evaluated constants) as JSON for the python analyses in /verif/analysis.
//
// It is injected with RUSTC_WRAPPER.  It behaves like plain rustc unless the
// crate being compiled lives under $VERIF_REPO (per-crate facts) or is the
// $VERIF_ROOTS crate (whole-program monomorphic export).
#![feature(rustc_private)]
#![allow(clippy::all)]

extern crate rustc_abi;
extern crate rustc_ast;
extern crate rustc_const_eval;
extern crate rustc_data_structures;
extern crate rustc_driver;
extern crate rustc_hir;
extern crate rustc_index;
extern crate rustc_infer;
extern crate rustc_interface;
extern crate rustc_trait_selection;
extern crate rustc_lint;
extern crate rustc_middle;
extern crate rustc_session;
extern crate rustc_span;
extern crate rustc_target;

mod export;
mod json;

use rustc_driver::{Callbacks, Compilation};
use rustc_interface::interface;
use rustc_middle::ty::TyCtxt;

struct Cb {
    mode: Mode,
    out: String,
}

#[derive(Clone, Copy, PartialEq)]
pub enum Mode {
    Crate,
    Mono,
}

impl Callbacks for Cb {
    fn after_analysis<'tcx>(&mut self, _c: &interface::Compiler, tcx: TyCtxt<'tcx>) -> Compilation {
        export::run(tcx, self.mode, &self.out);
        Compilation::Continue
    }
}

struct Plain;
impl Callbacks for Plain {}

fn main() {
    let mut args: Vec<String> = std::env::args().collect();
    // RUSTC_WRAPPER: argv[1] is the real rustc path
    if args.len() > 1 && (args[1].ends_with("rustc") || args[1].contains("/rustc")) {
        args.remove(1);
    }
    let out = std::env::var("VERIF_OUT").unwrap_or_default();
    let repo = std::env::var("VERIF_REPO").unwrap_or_else(|_| "/repo".to_string());
    let roots = std::env::var("VERIF_ROOTS").unwrap_or_else(|_| "/verif/roots".to_string());
    let mdir = std::env::var("CARGO_MANIFEST_DIR").unwrap_or_default();
    let is_query = args.iter().any(|a| a == "-vV" || a.starts_with("--print") || a == "-V" || a == "--version");
    let crate_name = args
        .iter()
        .position(|a| a == "--crate-name")
        .and_then(|i| args.get(i + 1).cloned())
        .unwrap_or_default();
    let is_build_script = crate_name.starts_with("build_script");
    let mode = if out.is_empty() || is_query || is_build_script || crate_name == "___" {
        None
    } else if mdir == roots || mdir.starts_with(&(roots.clone() + "/")) {
        Some(Mode::Mono)
    } else if mdir == repo || mdir.starts_with(&(repo.clone() + "/")) {
        // only library targets of the repo crates
        if args.iter().any(|a| a == "--test") || args.iter().any(|a| a.contains("crate-type") && a.contains("bin")) {
            None
        } else {
            Some(Mode::Crate)
        }
    } else {
        None
    };
    match mode {
        None => rustc_driver::run_compiler(&args, &mut Plain),
        Some(m) => rustc_driver::run_compiler(&args, &mut Cb { mode: m, out }),
    }
}
