"""C17, rule R -- each hazmat round function IS the FIPS-197 round transformation (conformance), for all blocks and keys.

    cipher_round(b, k)           = MixColumns(ShiftRows(SubBytes(b))) ^ k           (FIPS-197 5.1)
    equiv_inv_cipher_round(b, k) = InvMixColumns(InvShiftRows(InvSubBytes(b))) ^ k  (FIPS-197 5.3.5)
    mix_columns / inv_mix_columns = the column mixes of 5.1.3 / 5.3.3
    *_par(blocks, keys)[i]       = the single transformation of (blocks[i], keys[i])

Each function is interpreted on symbolic blocks / keys and the GF(2)-affine normal form of every output byte is compared
with the transcription of the standard in c02.py.  Software implementation: SubBytes is the code's own bitsliced
circuit, first proved to be the FIPS-197 S-box by its complete truth table (c02 lemma B).  Intrinsic implementations:
relative to the documented semantics of AESENC / AESDEC / AESIMC (x86) and AESE / AESD / AESMC / AESIMC (Arm), installed
as normal-form expansions (c02_hw) -- e.g. that three AESIMC make a MixColumns falls out of the linear algebra."""
import equiv, engine, bitform, c01, c02, c02_hw
import terms as T
from interp import State
from ops import flatten

NAMES = ('cipher_round', 'cipher_round_par', 'equiv_inv_cipher_round', 'equiv_inv_cipher_round_par', 'mix_columns', 'inv_mix_columns')


def fips_rules(chk, cfgname, m, mod):
    base = '%s|%s' % (cfgname, mod)
    fns = {}
    for f in m.fns:
        p, _, nm = f['path'].rpartition('::')
        if p == mod and nm in NAMES:
            fns[nm] = f
    if set(fns) != set(NAMES):
        chk.fail_closed('R-round-is-fips', base, 'hazmat functions missing: %s' % sorted(set(NAMES) - set(fns)))
        return 0
    n = 0
    undec = 0
    soft = 'soft' in mod
    try:
        if soft:
            sb, verdict, detail = c02.sbox_lemma(m)
            if sb is None:
                if verdict is False:
                    chk.violation('R-round-is-fips', base + '|sbox', 'aes software S-box: %s' % detail)
                    return 0
                chk.undecided.append('rule R for %s in %s: bit-level mode not applicable (%s)' % (mod, cfgname, detail))
                return None
            summ, inv, lem, verdict = c01.bitlevel_setup(m, c01.bitlevel_spec('aes::soft'))
            if summ is None:
                chk.undecided.append('rule R for %s in %s: bit-level mode not applicable (%s)' % (mod, cfgname, lem))
                return None
        else:
            sb = c02_hw.SB
        equiv.fresh_terms()
        engine._INTERPS.clear()
        I = engine.mk_interp(m, 30_000_000)
        I.bitcanon = True
        T.BITCANON = True
        if soft:
            I.summaries = dict(summ)
            bitform.PW_INVERSES.update(inv)
        else:
            I.summaries = None
            c02_hw.install()
        bty = m.ty(fns['mix_columns']['mir']['locals'][1])['t']
        for name in NAMES:
            f = fns[name]
            key = '%s|R|%s' % (base, name)
            st = State()
            a = engine.default_args(I, st, f)
            pty = m.ty(f['mir']['locals'][1])['t']
            bl = flatten(I, st.mem[a[0].obj], pty)
            kl = flatten(I, st.mem[a[1].obj], pty) if len(a) > 1 else None
            if bl is None or any(b.term is None for b in bl) or len(bl) % 16 or (kl is not None and (len(kl) != len(bl) or any(b.term is None for b in kl))):
                chk.fail_closed('R-round-is-fips', key + '|shape', 'arguments are not byte arrays of symbols')
                continue
            xs = [bitform.bitform(b.term) for b in bl]
            ks = [bitform.bitform(b.term) for b in kl] if kl is not None else None
            status, r = engine.run(I, f['id'], a, st)
            if status != 'ok':
                chk.fail_closed('R-round-is-fips', key + '|' + status, str(r)[:200])
                continue
            out = flatten(I, st.mem[a[0].obj], pty)
            code = [bitform.bitform(bitform.recanon(b.term)) if b.term is not None else None for b in out]
            ref = []
            for l in range(len(xs) // 16):
                x = xs[16 * l:16 * l + 16]
                k = ks[16 * l:16 * l + 16] if ks is not None else None
                if name.startswith('cipher_round'):
                    ref += c02.fips_round(x, k, sb)
                elif name.startswith('equiv_inv'):
                    ref += c02.fips_inv_round(x, k, sb)
                elif name == 'mix_columns':
                    ref += c02.mix_columns(x)
                else:
                    ref += c02.mix_columns(x, c02.IMC)
            if c02.decide(chk, 'R-round-is-fips', key, code, ref, '%s::%s is not the FIPS-197 transformation %s (byte index / 16 = lane)' % (mod, name, {
                    'cipher_round': 'MixColumns(ShiftRows(SubBytes(b))) ^ k', 'equiv_inv_cipher_round': 'InvMixColumns(InvShiftRows(InvSubBytes(b))) ^ k',
                    'mix_columns': 'MixColumns', 'inv_mix_columns': 'InvMixColumns'}[name.replace('_par', '')]),
                    dict(fn='%s::%s' % (mod, name), blocks=len(xs) // 16, sbox='proved by truth table' if soft else 'instruction definition')):
                n += 1
            else:
                undec += 1
    finally:
        T.BITCANON = False
        engine._INTERPS.clear()
        bitform.ISA.clear()
    return None if undec else n
