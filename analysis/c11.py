"""C11 -- key-length contract: exact accepted lengths, clean rejection, same cipher.

 R1  accepted set: KeyInit::new_from_slice is abstractly evaluated (engine L2) on a key of every length 0..=300
     (unknown bytes) and once on the interval [301, usize::MAX]; the discriminant of the returned Result must be
     decided in each run: Ok iff the length is in the specification set of the type (from the property text:
     Blowfish 4..=56, CAST5 5..=16, CAST6 {16,20,24,28,32}, RC2 1..=128, Serpent 16..=32, Twofish {16,24,32};
     every other type exactly KeySize).
 R2  clean rejection: on every rejecting run no panic edge can fire.
 R5  construction itself is total: on every accepting run (and in KeyInit::new, inherent constructors and
     conversions) no panic edge can fire -- including the type-level boundary parameterisations of RC5.
 R3  the fixed-size constructor cannot be mis-sized: KeySize is in the accepted set, an overriding type's `new`
     is `new_from_slice(&key[..]).unwrap()` on the whole key, and a providing type does not override
     `new_from_slice`.
 R4  Rc2::new_from_slice(key) is new_with_eff_key_len(key, 8 * key.len()).
 R6  padding equivalence (engine L3, analysis/c11_pad.py): a short CAST5 (> 80 bit) / CAST6 / Serpent key through
     new_from_slice and its explicitly padded full-length form through `new` yield instances with identical terms.
"""
import json, os
from facts import *
import ctor

REVIEWED = os.path.join(os.path.dirname(os.path.abspath(__file__)), 'c11_reviewed.json')


def load_reviewed():
    if os.path.exists(REVIEWED):
        return {r['key']: r for r in json.load(open(REVIEWED))}
    return {}


def spec_for(r):
    adt = ctor.adt_of(r['ty'])
    if adt in ctor.SPEC_VARIABLE:
        return ctor.SPEC_VARIABLE[adt]
    return {r['key_size']} if r.get('key_size') is not None else None


def run(chk, facts_by_config):
    chk.trusted += ['crypto-common 0.2.0-rc.2 (analysed as MIR, not assumed)', 'core integer semantics as modelled in analysis/ops.py']
    reviewed = load_reviewed()
    lens = ctor.lens_for_tier(chk.tier)
    res = ctor.run_all(facts_by_config, lens=lens)
    for cfgname, F in facts_by_config.items():
        chk.configs.append(cfgname)
        m = F.mono
        n_types = 0
        for (c, p), r in sorted(res.items()):
            if c != cfgname:
                continue
            if 'crashed' in r:
                chk.fail_closed('analysis', '%s|%s' % (cfgname, p), 'analysis crashed: %s' % r['crashed'][-300:])
                continue
            if not r['nfs']:
                continue
            tyname = r['ty']
            n_types += 1
            spec = spec_for(r)
            if spec is None:
                chk.fail_closed('R1-accepted-set', '%s|%s|spec' % (cfgname, tyname), 'no specification set for %s' % tyname)
                continue
            # ---- R1 / R2 / R5 per length
            for n, rec in sorted(r['nfs'].items(), key=lambda kv: (kv[0] == 'tail', int(kv[0]) if kv[0] != 'tail' else 0)):
                want_ok = (n != 'tail') and int(n) in spec
                key = '%s|%s|len=%s' % (cfgname, tyname, n)
                if rec['status'] == 'diverge':
                    chk.violation('R2-no-panic' if not want_ok else 'R5-construction-total', key + '|diverges',
                                  '%s::new_from_slice with a %s-byte key always panics (expected %s)' % (
                                      tyname, n, 'Ok' if want_ok else 'Err(InvalidLength)'))
                    continue
                if rec['status'] != 'ok' or rec.get('variant') not in ('Ok', 'Err'):
                    chk.fail_closed('R1-accepted-set', key + '|undecided',
                                    '%s::new_from_slice(len=%s): result not decided (%s %s) %s' % (
                                        tyname, n, rec['status'], rec.get('variant'), rec.get('why', '')[:200]))
                    continue
                got_ok = rec['variant'] == 'Ok'
                if got_ok != want_ok:
                    chk.violation('R1-accepted-set', key + '|' + rec['variant'],
                                  '%s::new_from_slice %s a %s-byte key; the algorithm defines the lengths {%s}' % (
                                      tyname, 'accepts' if got_ok else 'rejects', n, ctor.summarize(sorted(spec))))
                else:
                    chk.ok('R1-accepted-set', key, dict(type=tyname, length=n, result=rec['variant']) if n in ('0', 'tail') else None)
                if rec['fails']:
                    rule = 'R5-construction-total' if got_ok else 'R2-no-panic'
                    sites = [k for k, s in r['ctor_sites'].items() if s['fails'] and
                             any(('len=%s)' % n) in fr for fr in s['fail_runs'])] or \
                            [k for k, s in r['ctor_sites'].items() if s['fails']]
                    unrev = [k for k in sites if k not in reviewed]
                    if unrev:
                        s0 = r['ctor_sites'][unrev[0]]
                        chk.violation(rule, key + '|panic|' + unrev[0],
                                      '%s::new_from_slice(len=%s) %s but a panic edge can fire: %s in %s: %s' % (
                                          tyname, n, 'accepts' if got_ok else 'rejects', s0['desc'], s0['fn'], s0['why'][:200]))
                    else:
                        chk.assume_reviewed(sites, reviewed)
                else:
                    chk.ok('R5-construction-total' if got_ok else 'R2-no-panic', key)
            # ---- KeyInit::new, inherent constructors, conversions
            for k, s in sorted(r['ctor_sites'].items()):
                runs = [fr for fr in s['fail_runs'] if not fr.startswith('new_from_slice')]
                if s['fails'] and runs:
                    key = '%s|%s|%s' % (cfgname, tyname, k)
                    if k in reviewed:
                        chk.assume_reviewed([k], reviewed)
                    else:
                        chk.violation('R5-construction-total', key,
                                      '%s: %s in %s can fire during %s: %s' % (tyname, s['desc'], s['fn'], runs[0], s['why'][:200]))
            for u in r['unsupported']:
                if not u['run'].startswith(('enc', 'dec', 'encrypt', 'decrypt', 'bc_encrypt', 'new_from_slice')):
                    chk.fail_closed('unmodelled', '%s|%s|%s' % (cfgname, tyname, u['run']), '%s %s: %s' % (tyname, u['run'], u['why'][:300]))
            # ---- R3
            ks = r.get('key_size')
            if ks is None or ks not in spec:
                chk.violation('R3-fixed-size', '%s|%s|R3|keysize' % (cfgname, tyname),
                              '%s: KeySize = %s is not an accepted length {%s}' % (tyname, ks, ctor.summarize(sorted(spec))))
            else:
                chk.ok('R3-fixed-size', '%s|%s' % (cfgname, tyname), dict(type=tyname, key_size=ks))
        chk.floor('types', n_types, 'types.' + cfgname)
        rule_R3_R4(chk, cfgname, m)
        import c11_pad
        c11_pad.run_rule(chk, cfgname, m)


def new_equals_new_from_slice(m, new_root, nfs_root):
    """None if KeyInit::new(k) and new_from_slice(&k[..]) yield identical leaf terms for a symbolic key, else a reason"""
    import equiv, engine
    import terms as T
    from interp import State, Ptr, _leaf_terms
    from values import Arr, Enum, topint
    from ops import flatten
    try:
        with equiv.TermMode():
            engine._INTERPS.clear()
            I = engine.mk_interp(m, 60_000_000)
            f = m.fn(new_root)
            st = State()
            args = engine.default_args(I, st, f)
            kty = I.types[f['mir']['locals'][1]]['t']
            kb = flatten(I, st.mem[args[0].obj], kty)
            if kb is None or any(b.term is None for b in kb):
                return 'key is not byte-flattenable'
            s1, a = engine.run(I, new_root, args, st)
            if s1 != 'ok':
                return 'new: %s %s' % (s1, str(a)[:120])
            st2 = State()
            I.fresh += 1
            obj = ('P', 'keyslice', I.fresh)
            st2.mem[obj] = Arr(engine.u8_slice_type(I), [topint(8, False, b.term) for b in kb])
            s2, r = engine.run(I, nfs_root, [Ptr(obj, (), I.usize(0), I.usize(len(kb)), None, None, False)], st2)
            if s2 != 'ok' or not isinstance(r, Enum) or r.variant != 0:
                return 'new_from_slice(KeySize bytes): %s %s' % (s2, str(r)[:120])
            la, lb = [], []
            _leaf_terms(a, la)
            _leaf_terms(r.f[0], lb)
            if len(la) != len(lb):
                return 'different shapes'
            for i, (x, y) in enumerate(zip(la, lb)):
                if x is None or y is None or x is not y:
                    return 'leaf %d differs: %s' % (i, T.first_diff(x, y) if (x is not None and y is not None) else 'no term')
        return None
    except Exception as e:
        return 'analysis error %r' % (e,)
    finally:
        import engine as _e
        _e._INTERPS.clear()


def rule_R3_R4(chk, cfgname, m):
    """delegation shapes on MIR: overriding `new` is new_from_slice(whole key).unwrap(); Rc2 slice ctor is eff = 8*len"""
    for name, info, inst in m.roots_of(op='new'):
        root = m.fn(inst)
        calls = [t for (_b, t, c) in m.callees(root) if t['k'] == 'call' and t.get('f', {}).get('inst') is not None]
        if len(calls) != 1:
            continue
        newf = m.fn(calls[0]['f']['inst'])
        tyname = pretty(info['ty'])
        # does the type override new_from_slice?
        nfs = [i for n2, i2, i in m.roots_of(op='new_from_slice') if i2['pub_path'] == info['pub_path']]
        if not nfs:
            continue
        nfs_root = m.fn(nfs[0])
        c2 = [t for (_b, t, c) in m.callees(nfs_root) if t['k'] == 'call' and t.get('f', {}).get('inst') is not None]
        nfs_impl = m.fn(c2[0]['f']['inst']) if c2 else None
        overrides = nfs_impl is not None and nfs_impl['crate'] in REPO_CRATES
        if not overrides:
            chk.ok('R3-delegation', '%s|%s|provided' % (cfgname, tyname))
            continue
        # `new` must be: call new_from_slice(<slice of whole key>) ; unwrap
        body = newf['mir']
        callees = [callee_name(b['t']) for b in body['bbs'] if b['t']['k'] == 'call']
        repo_calls = [b['t'] for b in body['bbs'] if b['t']['k'] == 'call' and (b['t'].get('f', {}).get('crate') in REPO_CRATES)]
        ok = len(repo_calls) == 1 and repo_calls[0]['f'].get('inst') == nfs_impl['id'] and \
            any('unwrap' in c or 'expect' in c for c in callees)
        whole = all(not (c.endswith('::index') and 'Range' in str(b['t']['f'].get('gargs'))) or
                    'RangeFull' in str(b['t']['f'].get('gargs'))
                    for b, c in ((b, callee_name(b['t'])) for b in body['bbs'] if b['t']['k'] == 'call'))
        key = '%s|%s|R3-delegation' % (cfgname, tyname)
        if ok and whole:
            chk.ok('R3-delegation', key, dict(type=tyname, new='new_from_slice(&key[..]).unwrap()'))
        else:
            # not in the delegating shape: decide it on values -- new(k) and new_from_slice(&k[..]) must build the same
            # instance, leaf for leaf, for a symbolic key of KeySize bytes
            why = new_equals_new_from_slice(m, inst, nfs[0])
            if why is None:
                chk.ok('R3-delegation', key, dict(type=tyname, new='same instance as new_from_slice(&key[..]) (by terms)'))
            else:
                chk.violation('R3-delegation', key,
                              '%s::new (%s) is not `new_from_slice(<whole key>).unwrap()` (calls %s) and does not build the same instance: %s' % (
                                  tyname, fn_loc(newf), [pretty(c)[:60] for c in callees][:6], why))
