#!/usr/bin/env python3
"""Rewrite section 10 of DESIGN.md from seeded/*/meta.json and seeded/*/detected.json (written by tools/score_seeded.py)."""
import json, os, re
V = '/verif'
sd = os.path.join(V, 'seeded')


def rules(det):
    out = []
    for c, r in det.get('checks', {}).items():
        if r['violations']:
            rs = sorted({m.group(1) for f in r['first'] for m in [re.match(r'\[([^\]]+)\]', f)] if m})
            out.append('%s (%s)' % (c, ', '.join(rs)) if rs else c)
    return out


rows, brows = [], []
for sid in sorted(os.listdir(sd)):
    d = os.path.join(sd, sid)
    if sid == 'benign' or not os.path.isdir(d):
        continue
    meta = json.load(open(os.path.join(d, 'meta.json')))
    det = json.load(open(os.path.join(d, 'detected.json'))) if os.path.exists(os.path.join(d, 'detected.json')) else None
    summ = re.sub(r'\s+', ' ', meta.get('summary', ''))
    summ = summ[:230] + ('...' if len(summ) > 230 else '')
    need = re.sub(r'\s+', ' ', meta.get('needs_to_manifest', ''))[:140]
    if det is None:
        caught = '(not scored)'
    elif not det.get('applies'):
        caught = '(patch no longer applies)'
    else:
        r = rules(det)
        caught = ', '.join(r) if r else '**not detected**'
    rows.append('| %s | %s | %s | %s |' % (sid, summ.replace('|', '/'), need.replace('|', '/'), caught))
for sid in sorted(os.listdir(os.path.join(sd, 'benign'))):
    d = os.path.join(sd, 'benign', sid)
    meta = json.load(open(os.path.join(d, 'meta.json')))
    det = json.load(open(os.path.join(d, 'detected.json'))) if os.path.exists(os.path.join(d, 'detected.json')) else None
    r = rules(det) if det else None
    brows.append('| %s | %s | %s |' % (sid, re.sub(r'\s+', ' ', meta.get('summary', ''))[:200].replace('|', '/'),
                                    '(not scored)' if det is None else ('**FALSE ALARM**: ' + ', '.join(r) if r else 'silent in all %d checks' % len(det.get('checks', {})))))
n = len(rows)
miss = [r for r in rows if 'not detected' in r]
text = """## 10. Seeded changes and what catches them

%d breaking changes were written by fresh sub-agents (five rounds, `a` to `e`; `d` and `e` target C02 and C17 rule R) that saw only the text of one property and a
scratch worktree of /repo -- nothing from /verif.  Each compiles, passes the pinned suite unedited, and fails a
demonstration that passes on the pristine tree; I confirmed all three facts myself in a scratch worktree
(`tools/confirm_seeded.py`) before keeping the change as `seeded/<id>/{patch.diff, demo.rs, meta.json}`.
`tools/score_seeded.py` applies each patch in a scratch worktree (never in /repo), runs the check of the targeted
property (and, only if that stays silent, the checks of related properties) through `VERIF_REPO`, and records the
result in `seeded/<id>/detected.json`; this table is generated from those files (`tools/update_design_seeded.py`).
%d of %d are reported; the rule names say which rule of which check.

| seeded | change | needs, to manifest | reported by |
|--------|--------|--------------------|-------------|
%s

Not detected (%d): %s

Round `a` initially had eight misses (C01a-1, C14a-1..3, C18a-1, C18a-3, C20a-2); they led to C14 rule X, C18 rules
S / Si / TA and C20 rule W.  Round `b` added C12 K2 (`clone_from`), the semantic fall-back of C12 K, more C14 salt
lengths, the `aes_force_soft` + static `+aes` configuration for C17 H, C17 rules M / I, C04 B4, and the bit-level
engine (C01 for the software AES, Serpent, DES, GIFT; C04 L for fixslice; C03 C).  Round `c` added the 256 / 512-byte
lengths of C18 S / Si, tails of two and three blocks in the probes, the `alt1` / `alt2` cfg combinations in the quick tier
of C17 / C20 / C01, the all-features configuration of C05, and the Kuznyechik `compact_soft` proof in C01.  The two
changes that stay undetected are outside what is claimed: C05c-1 is a fast path inside `gen_keys` that returns wrong
subkeys for two of the mixed weak keys (conformance of the DES key schedule, section 7), C18b-3 uses `to_ne_bytes` for
the round counter and is wrong on big-endian targets only (not in the configuration matrix).

### Behaviour-preserving patches (must stay silent)

The first ten were written by me while building the rules, twelve by a sub-agent asked for plausible refactorings in the
areas the term-based rules cover (helper extraction, loop forms, renamed locals, correct `clone_from` / `new_checked`
overrides, iterator forms), three more target specific anchors (a renamed `sub_bytes`, a `zeroize` wipe of a temporary, comment / blank lines
that shift every line number), and two more probe shape rules (the token test bound to a local; an element-wise wipe loop
in `Drop`, which found a fourth false alarm, in C16, repaired by an interpretation fall-back).
They found false alarms, all repaired by making the rule semantic rather than by loosening it: C19 did not know
the `debug_struct(..).finish_non_exhaustive()` builder, C14 W required the callee set of `salted_expand_key` to be exact
(a helper extraction tripped it; it is transitive now and P became a term rule), and C03 F reported every feature-gated
difference in MIR (a wipe of a temporary is now decided by comparing result terms).  For the benign patches the checks
relevant to the touched crate are run (listed in each `meta.json`).

| patch | change | all checks |
|-------|--------|------------|
%s
""" % (n, n - len(miss), n, '\n'.join(rows), len(miss),
       '; '.join(r.split('|')[1].strip() for r in miss) if miss else 'none', '\n'.join(brows))
p = os.path.join(V, 'DESIGN.md')
s = open(p).read()
i = s.index('## 10. Seeded changes and what catches them')
j = s.index('---------------------------------------------------------------------------------', i)
s = s[:i] + text + '\n' + s[j:]
open(p, 'w').write(s)
print('section 10 rewritten: %d seeded (%d not detected), %d benign' % (n, len(miss), len(brows)))
