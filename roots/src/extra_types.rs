// Hand-instantiated generic cipher types that have no public alias in /repo.
// gen_roots.py roots every alias in this file for every trait it implements.
use cipher::consts::*;

pub type X_Blowfish = blowfish::Blowfish;

// RC5<W, R, B>: the six tested triples ...
pub type X_Rc5_8_12_4 = rc5::RC5<u8, U12, U4>;
pub type X_Rc5_16_16_8 = rc5::RC5<u16, U16, U8>;
pub type X_Rc5_32_12_16 = rc5::RC5<u32, U12, U16>;
pub type X_Rc5_32_16_16 = rc5::RC5<u32, U16, U16>;
pub type X_Rc5_64_24_24 = rc5::RC5<u64, U24, U24>;
pub type X_Rc5_128_28_32 = rc5::RC5<u128, U28, U32>;
// ... and boundary parameterisations (rounds 0/1/255, key length 0/1/5/255)
pub type X_Rc5_32_0_16 = rc5::RC5<u32, U0, U16>;
pub type X_Rc5_32_1_1 = rc5::RC5<u32, U1, U1>;
pub type X_Rc5_32_12_0 = rc5::RC5<u32, U12, U0>;
pub type X_Rc5_32_12_5 = rc5::RC5<u32, U12, U5>;
pub type X_Rc5_32_255_255 = rc5::RC5<u32, U255, U255>;
pub type X_Rc5_8_255_255 = rc5::RC5<u8, U255, U255>;
pub type X_Rc5_8_1_0 = rc5::RC5<u8, U1, U0>;
pub type X_Rc5_16_12_5 = rc5::RC5<u16, U12, U5>;
pub type X_Rc5_64_12_5 = rc5::RC5<u64, U12, U5>;
pub type X_Rc5_64_255_255 = rc5::RC5<u64, U255, U255>;
pub type X_Rc5_128_12_5 = rc5::RC5<u128, U12, U5>;
pub type X_Rc5_128_255_255 = rc5::RC5<u128, U255, U255>;
pub type X_Rc5_128_0_0 = rc5::RC5<u128, U0, U0>;
