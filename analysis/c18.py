"""C18 -- BelT wide block: short input is rejected with the buffer untouched; longer input is processed totally.

 G  rejection (full for this clause): belt_wblock_enc / belt_wblock_dec are abstractly interpreted on a buffer of
    every length 0..=31 with unknown bytes: the result must be Err(InvalidLengthError), no panic edge may fire, and
    the abstract buffer object after the call must be the *same* value as before (no store reached it).
 T  totality for lengths >= 32: the same interpretation for every length 32..=100 and the boundary lengths
    127,128,129,255,256,257,1000 (multiples of 16 and not): result Ok, every panic edge discharged.
    Lengths beyond those are covered by TA.
 TA totality for *every* length >= 32 at once: one interpretation with the length an unknown in [32, isize::MAX]
    carried as a linear term (`len`), the buffer summarised by one unknown byte.  Slice bounds such as
    `data[len - 32..]`, `copy_within(16.., 0)` and `try_from(&data[len - 16..])` are decided relationally:
    two values whose linear normal forms differ by a constant are compared exactly when the interval of one
    shows that the constant offset cannot wrap (ops._cmp_relational).  Loops over the length are solved by
    widening.  Result must be Ok on every path and every panic edge discharged.
 S  step reference (engine L3, per enumerated length): on a symbolic buffer b[0..L) and key, with belt_block_raw an
    uninterpreted function E, belt_wblock_enc must leave exactly the bytes of the reference transformation
        n = ceil(L / 16);  for i = 1 .. 2n:   s = b_1 ^ .. ^ b_{n-1}   (the full 16-byte blocks that end before byte L-1)
                                              b = b[16..L] || s ;   b[L-32 .. L-16] ^= E(s) ^ <i>_le
    (STB 34.101.31 belt-wblock as restated in the property text), and belt_wblock_dec the bytes of its exact inverse
    sequence (i = 2n .. 1).  Compared as hash-consed terms; no buffer or key is enumerated.
 Si the same comparison for *one* round with the round counter a symbol i (any round number, in particular i >= 256,
    which needs buffers of 2033 bytes or more): <i>_le must be all bytes of i.
dec(enc(x)) = x is decided under C01.  That E is the BelT block cipher is conformance (C07) and not decided.
"""
from facts import *
from engine import *
from values import *

SHORT = list(range(0, 32))
LONG_QUICK = list(range(32, 66)) + [79, 80, 81, 95, 96, 97, 127, 128, 129, 255, 256, 257]
LONG_THOROUGH = list(range(32, 130)) + [255, 256, 257, 511, 512, 513, 1000, 1023, 1024, 1025]


_F = {}


def _one(job):
    cfgname, fdir, fname, n = job
    if fdir not in _F:
        _F.clear()
        _F[fdir] = Facts(cfgname, fdir)
    m = _F[fdir].mono
    inst = m.roots['verif_root__belt_block__free__' + fname]
    f = m.fn(inst)
    I = mk_interp(m, 12_000_000)
    st = State()
    data = slice_arg(I, st, n, 'data')
    before = st.mem[data.obj]
    args = default_args(I, st, f, {1: data})
    status, r = run_engine(I, inst, args, st)
    fails = failed_sites(I)
    return dict(cfg=cfgname, fn=fname, n=n, status=status, variant=(r.variant if isinstance(r, Enum) else None),
                why=(str(r)[:300] if status in ('unsupported', 'budget') else ''), untouched=st.mem.get(data.obj) is before,
                fails=[(s.desc, s.key[0], s.why[:200]) for s in fails[:3]], sites=len(I.sites))


def all_lengths(m, cfgname, fname):
    """belt_wblock_enc / _dec on a buffer of unknown length in [32, isize::MAX] (relational in `len`)"""
    import equiv, engine
    import terms as T
    inst = m.roots['verif_root__belt_block__free__' + fname]
    f = m.fn(inst)
    with equiv.TermMode():
        engine._INTERPS.clear()
        I = mk_interp(m, 30_000_000)
        st = State()
        n = AInt(64 if I.usize(0).w == 64 else 32, 32, (1 << (I.usize(0).w - 1)) - 1, term=T.sym('len', I.usize(0).w))
        data = slice_arg(I, st, n, 'data')
        args = default_args(I, st, f, {1: data})
        status, r = run_engine(I, inst, args, st)
        fails = failed_sites(I)
        out = dict(cfg=cfgname, fn=fname, status=status, variant=(r.variant if isinstance(r, Enum) else None),
                   why=(str(r)[:300] if status in ('unsupported', 'budget') else ''),
                   fails=[(s.desc, s.key[0], s.why[:200]) for s in fails[:5]], sites=len(I.sites))
    engine._INTERPS.clear()
    return out


LOOP_NEXT = ('core::iter::range::<impl core::iter::traits::iterator::Iterator for core::ops::range::Range<A>>::next',
             '<core::iter::adapters::rev::Rev<I> as core::iter::traits::iterator::Iterator>::next')
STEP_SYM = [32, 33, 47, 48, 49, 64, 65, 512, 513]
STEP_QUICK = list(range(32, 50)) + [63, 64, 65, 80, 255, 256, 512]
STEP_THOROUGH = list(range(32, 130)) + [255, 256, 257, 512, 513, 528]


def step_reference(job):
    """rule S for one (function, length): returns (cfg, fn, n, sym, ok, detail).
    sym: interpret exactly one iteration of the round loop with the round counter a *symbol* i (the loop's own
    `Iterator::next` call in the wide-block function is answered Some(i) once, then None)"""
    cfgname, fdir, fname, n, sym = job
    import equiv, engine
    import terms as T
    from interp import Ptr
    if fdir not in _F:
        _F.clear()
        _F[fdir] = Facts(cfgname, fdir)
    m = _F[fdir].mono
    inst = m.roots['verif_root__belt_block__free__' + fname]
    f = m.fn(inst)
    with equiv.TermMode():
        engine._INTERPS.clear()
        I = mk_interp(m, 60_000_000)
        raws = [g['path'] for g in m.fns if g['crate'] == 'belt_block' and g.get('name') == 'belt_block_raw']
        if not raws:
            return (cfgname, fname, n, sym, None, 'belt_block_raw not found')
        I.summaries = {p: ('deep', 'beltE') for p in raws}
        st = State()
        fired = []
        if sym:
            w = I.usize(0).w
            isym = AInt(w, 1, (1 << (w - 1)) - 1, term=T.sym('i', w))

            def mk(orig_name):
                def next_model(I_, frame, st_, a, callee):
                    if frame.fn.get('name') != fname or frame.fn.get('crate') != 'belt_block':
                        return I_.call_fn(callee['inst'], a, st_, frame.depth + 1)
                    fired.append(1)
                    rt = I_.cur_dest_ty
                    return Enum(rt, 1, [isym]) if len(fired) == 1 else Enum(rt, 0, [])
                return next_model
            for nm in LOOP_NEXT:
                I.models[nm] = mk(nm)
        I.fresh += 1
        dobj = ('P', 'data', I.fresh)
        dsyms = [topint(8, False, T.sym('b[%d]' % i, 8)) for i in range(n)]
        st.mem[dobj] = Arr(u8_slice_type(I), dsyms)
        data = Ptr(dobj, (), I.usize(0), I.usize(n), None, None, True)
        args = default_args(I, st, f, {1: data})
        kv = st.mem[args[1].obj]
        kd = T.op('mem', 0, *[e.term for e in kv.e])
        status, r = run_engine(I, inst, [data, args[1]], st)
        for nm in LOOP_NEXT:
            I.models.pop(nm, None)
        if sym and len(fired) != 2:
            return (cfgname, fname, n, sym, 'loop-form', 'the round loop of %s is not a `for` over a Range / Rev<Range> (its next() was called %d times)' % (fname, len(fired)))
        if status != 'ok' or not isinstance(r, Enum) or r.variant != 0:
            return (cfgname, fname, n, sym, None, '%s %s' % (status, str(r)[:200]))
        got = [x.term for x in st.mem[dobj].e]
        usz = I.usize(0).w // 8

        def E(sb):
            ws = [T.cat(32, sb[4 * k:4 * k + 4]) for k in range(4)]
            out = []
            for k in range(4):
                o = T.op('fn:beltE#%d' % k, 32, ws[0], ws[1], ws[2], ws[3], kd)
                out += [T.slice_(o, 8 * j, 8) for j in range(4)]
            return out

        def xor(a, b_):
            return [T.op('BitXor', 8, x, y) for x, y in zip(a, b_)]

        def ctr(i):
            if sym:
                return [T.slice_(isym.term, 8 * j, 8) for j in range(usz)] + [T.const(8, 0)] * (16 - usz)
            return [T.const(8, (i >> (8 * j)) & 0xff) for j in range(usz)] + [T.const(8, 0)] * (16 - usz)

        b = [d.term for d in dsyms]
        nb = (n + 15) // 16
        full = [j for j in range(nb) if 16 * j + 16 <= n - 1]       # blocks that end before byte L-1
        if fname == 'belt_wblock_enc':
            for i in ([0] if sym else range(1, 2 * nb + 1)):
                sb = [T.const(8, 0)] * 16
                for j in full:
                    sb = xor(sb, b[16 * j:16 * j + 16])
                b = b[16:] + sb
                b[n - 32:n - 16] = xor(b[n - 32:n - 16], xor(E(sb), ctr(i)))
        else:
            for i in ([0] if sym else range(2 * nb, 0, -1)):
                sb = b[n - 16:]
                t = xor(b[n - 32:n - 16], xor(E(sb), ctr(i)))
                tail = b[:n - 32] + t                      # the old b[16..L)
                old = [None] * 16 + tail
                r1 = sb
                for j in full:
                    if j >= 1:
                        r1 = xor(r1, old[16 * j:16 * j + 16])
                b = r1 + tail
        for i, (g, w) in enumerate(zip(got, b)):
            if g is None or g is not w:
                return (cfgname, fname, n, sym, False, 'byte %d: %s' % (i, T.first_diff(g, w) if g is not None else 'not a term'))
    engine._INTERPS.clear()
    return (cfgname, fname, n, sym, True, '%d bytes' % n)


def report_all_lengths(chk, rule, x):
    fname = x['fn']
    key = '%s|%s|len>=32' % (x['cfg'], fname)
    if x['status'] in ('unsupported', 'budget'):
        chk.fail_closed(rule, key + '|' + x['status'], '%s, any length >= 32: %s' % (fname, x['why']))
    elif x['status'] != 'ok' or x['variant'] != 0:
        chk.violation(rule, key + '|result', '%s on a buffer of some length >= 32 does not return Ok (%s, variant %s)' % (fname, x['status'], x['variant']))
    elif x['fails']:
        for (desc, where, why) in x['fails']:
            chk.violation(rule, key + '|panic|%s|%s' % (where, desc), '%s on a buffer of some length >= 32: %s in %s can fire: %s' % (fname, desc, where, why))
    else:
        chk.ok(rule, key, dict(fn=fname, length='every length in [32, isize::MAX]', result='Ok', panic_edges_discharged=x['sites']))


def run(chk, facts_by_config):
    import multiprocessing as mp
    chk.trusted += ['core integer/slice semantics as interpreted from MIR', 'analysis/ops.py transfer functions']
    chk.undecided += ['belt_block_raw is the BelT block cipher (conformance, C07)', 'the step reference for lengths not enumerated']
    longs = LONG_THOROUGH if chk.tier == 'thorough' else LONG_QUICK
    jobs = []
    for cfgname, F in facts_by_config.items():
        chk.configs.append(cfgname)
        found = 0
        for fname in ('belt_wblock_enc', 'belt_wblock_dec'):
            if 'verif_root__belt_block__free__' + fname not in F.mono.roots:
                chk.fail_closed('anchor', '%s|%s' % (cfgname, fname), 'root for %s missing' % fname)
                continue
            found += 1
            for n in SHORT + longs:
                jobs.append((cfgname, F.dir, fname, n))
            report_all_lengths(chk, 'TA-total-all-lengths', all_lengths(F.mono, cfgname, fname))
        chk.floor('anchors', found, 'fns.' + cfgname)
    jobs.sort(key=lambda j: -j[3])
    sjobs = [(c, F.dir, fname, n, sym) for c, F in facts_by_config.items() for fname in ('belt_wblock_enc', 'belt_wblock_dec')
             if 'verif_root__belt_block__free__' + fname in F.mono.roots
             for sym in (False, True)
             for n in (STEP_SYM if sym else STEP_THOROUGH if chk.tier == 'thorough' else STEP_QUICK)]
    sjobs.sort(key=lambda j: -j[3])
    with mp.Pool(min(16, os.cpu_count() or 4)) as pool:
        sasync = pool.map_async(step_reference, sjobs, chunksize=1)
        results = pool.map(_one, jobs, chunksize=1)
        sresults = sasync.get()
    for (cfgname, fname, n, sym, ok, detail) in sorted(sresults, key=str):
        key = '%s|%s|S|len=%d' % (cfgname, fname, n)
        if sym:
            key = '%s|%s|Si|len=%d' % (cfgname, fname, n)
            if ok == 'loop-form':
                if detail not in chk.undecided:
                    chk.undecided.append('S-step-any-round: ' + detail)
            elif ok:
                chk.ok('S-step-any-round', key, dict(fn=fname, length=n, round='symbolic i (any round number)') if n == 32 else None)
            elif ok is None:
                chk.fail_closed('S-step-any-round', key, '%s len=%d: %s' % (fname, n, detail))
            else:
                chk.violation('S-step-any-round', key, 'one round of %s with round counter i on a %d-byte buffer differs from the reference step at %s' % (fname, n, detail))
            continue
        if ok:
            chk.ok('S-step-reference', key, dict(fn=fname, length=n, equals='reference belt-wblock %s' % ('rounds 1..2n' if fname.endswith('enc') else 'inverse rounds 2n..1')) if n in (32, 33) else None)
        elif ok is None:
            chk.fail_closed('S-step-reference', key, '%s len=%d: %s' % (fname, n, detail))
        else:
            chk.violation('S-step-reference', key, '%s on a %d-byte buffer differs from the reference wide-block transformation at %s' % (fname, n, detail))
    for x in sorted(results, key=lambda x: (x['cfg'], x['fn'], x['n'])):
        fname, n = x['fn'], x['n']
        key = '%s|%s|len=%d' % (x['cfg'], fname, n)
        if n < 32:
            if x['status'] != 'ok' or x['variant'] != 1:
                chk.violation('G-reject-short', key + '|result',
                              '%s on a %d-byte buffer does not return the length error (%s, variant %s) %s' % (fname, n, x['status'], x['variant'], x['why']))
            elif not x['untouched']:
                chk.violation('G-reject-short', key + '|mutated',
                              '%s on a %d-byte buffer returns the length error but a store reached the buffer first' % (fname, n))
            elif x['fails']:
                chk.violation('G-reject-short', key + '|panic', '%s on a %d-byte buffer: %s can fire: %s' % (fname, n, x['fails'][0][0], x['fails'][0][2]))
            else:
                chk.ok('G-reject-short', key, dict(fn=fname, length=n, result='Err', buffer='untouched') if n in (0, 31) else None)
        else:
            if x['status'] in ('unsupported', 'budget'):
                chk.fail_closed('T-total', key + '|' + x['status'], '%s len=%d: %s' % (fname, n, x['why']))
            elif x['status'] != 'ok' or x['variant'] != 0:
                chk.violation('T-total', key + '|result', '%s on a %d-byte buffer does not return Ok (%s, variant %s)' % (fname, n, x['status'], x['variant']))
            elif x['fails']:
                chk.violation('T-total', key + '|panic|' + x['fails'][0][0],
                              '%s on a %d-byte buffer: %s in %s can fire: %s' % (fname, n, x['fails'][0][0], x['fails'][0][1], x['fails'][0][2]))
            else:
                chk.ok('T-total', key, dict(fn=fname, length=n, result='Ok', panic_edges=x['sites']) if n in (32, 33, 257) else None)


from engine import run as run_engine
import os
