"""C05 -- DES / Triple-DES key relations and compositions (clause level, engine L3).

Decided as term identities (global value numbering; helper routines are uninterpreted function symbols):
 S  key split: `T::new(key)` builds field j as Des{ keys: gen_keys(from_be_bytes(key[8(j-1) .. 8j])) } -- the
    8-byte parts in order, big-endian -- for Des and the four Triple-DES types.
 C  composition: with Des::encrypt / Des::decrypt as opaque E / D, the output of encrypt_block is
        TdesEde3: E_K3(D_K2(E_K1(x)))   TdesEee3: E_K3(E_K2(E_K1(x)))
        TdesEde2: E_K1(D_K2(E_K1(x)))   TdesEee2: E_K1(E_K2(E_K1(x)))      (SP 800-67 / property text)
    on the big-endian 64-bit reading of the block, where K_j is the instance field that S showed to hold key part j;
    hence a two-key type equals the three-key type with the first part repeated, and EDE with equal parts
    reduces to E under D(E(x)) = x.  decrypt_block is the mirrored inverse composition (also C01).
 R  Des::encrypt = fp(rotr32(round_k15(... round_k0(ip(x))))) and Des::decrypt is the same chain with the sixteen
    subkeys in reverse order (ip / fp / round uninterpreted).
Not decided: that ip/fp/e/p/pc1/pc2/SBOXES are the FIPS 46-3 tables, parity bits, complementation.
"""
from facts import *
import equiv, engine
import terms as T
from values import *
from interp import Ptr, State

SPEC = {
    'des::tdes::TdesEde3': [('E', 1), ('D', 2), ('E', 3)],
    'des::tdes::TdesEee3': [('E', 1), ('E', 2), ('E', 3)],
    'des::tdes::TdesEde2': [('E', 1), ('D', 2), ('E', 1)],
    'des::tdes::TdesEee2': [('E', 1), ('E', 2), ('E', 1)],
}


def find_fn(m, path, pred=None):
    for f in m.fns:
        if f['path'] == path and (pred is None or pred(f)):
            return f
    return None


def be_word(byte_terms):
    """64-bit term of 8 byte terms read big-endian"""
    return T.cat(64, list(reversed(byte_terms)))


def run(chk, facts_by_config):
    chk.trusted += ['the rewrite rules of analysis/terms.py', 'purity of the summarised helpers (C15)']
    chk.undecided += ['ip/fp/e/p/pc1/pc2/SBOXES are the FIPS 46-3 tables', 'parity bits are ignored by PC-1', 'complementation property']
    for cfgname, F in facts_by_config.items():
        chk.configs.append(cfgname)
        m = F.mono
        n = 0
        with equiv.TermMode():
            T.INVERSES.clear()
            # ---------------- S: key split
            part_of_field = {}
            for tyname in ['des::des::Des'] + list(SPEC):
                newf = find_fn(m, '<%s as crypto_common::KeyInit>::new' % tyname)
                if newf is None:
                    chk.fail_closed('S-key-split', '%s|%s' % (cfgname, tyname), 'KeyInit::new of %s not found' % tyname)
                    continue
                I = engine.mk_interp(m, 5_000_000)
                I.summaries = {'des::utils::gen_keys': 'gen_keys'}
                st = State()
                args = engine.default_args(I, st, newf)
                status, r = engine.run(I, newf['id'], args, st)
                if status != 'ok':
                    chk.fail_closed('S-key-split', '%s|%s|run' % (cfgname, tyname), '%s::new: %s %s' % (tyname, status, str(r)[:200]))
                    continue
                keyobj = args[0].obj
                kv = st.mem[keyobj]
                from ops import flatten
                kb = flatten(I, kv, m.ty(newf['mir']['locals'][1])['t'])
                kterms = [b.term for b in kb]
                fields = [r] if tyname == 'des::des::Des' else list(r.f)
                fmap = {}
                for fi, dv in enumerate(fields):
                    n += 1
                    key = '%s|%s|S|field%d' % (cfgname, tyname, fi)
                    ks = dv.f[0]
                    t0 = ks.e[0].term if isinstance(ks, Arr) else None
                    if t0 is None or t0[0] != 'fn:gen_keys#0':
                        chk.violation('S-key-split', key, '%s::new: field %d is not Des{keys: gen_keys(..)} of the key (%s)' % (
                            tyname, fi, T.show(t0, 0, 3)))
                        continue
                    arg = t0[2]
                    part = None
                    for j in range(len(kterms) // 8):
                        if arg is be_word(kterms[8 * j:8 * j + 8]):
                            part = j + 1
                    same = all(e.term is not None and e.term[0] == 'fn:gen_keys#%d' % i and e.term[2] is arg for i, e in enumerate(ks.e))
                    if part is None or not same:
                        chk.violation('S-key-split', key, '%s::new: field %d is derived from %s, not from one big-endian 8-byte key part' % (
                            tyname, fi, T.show(arg, 0, 3)))
                    else:
                        fmap[fi] = part
                        want = fi + 1
                        if part != want:
                            chk.violation('S-key-split', key, '%s::new: field %d holds key part %d (parts must be used in order)' % (tyname, fi, part))
                        else:
                            chk.ok('S-key-split', key, dict(type=tyname, field=fi, key_part=part, derivation='gen_keys(from_be_bytes(key[%d..%d]))' % (8 * fi, 8 * fi + 8)))
                part_of_field[tyname] = fmap
            # ---------------- C: composition
            T.INVERSES.update({'fn:desE': 'fn:desD', 'fn:desD': 'fn:desE'})
            for tyname, spec in SPEC.items():
                ty_s = [t['ty'] for t in m.cipher_types if pretty(t['ty']) == tyname]
                if not ty_s:
                    chk.fail_closed('C-composition', '%s|%s' % (cfgname, tyname), 'type not rooted')
                    continue
                for direction in ('enc', 'dec'):
                    n += 1
                    key = '%s|%s|C|%s' % (cfgname, tyname, direction)
                    f = equiv.backend_fn(m, ty_s[0], equiv.ENC if direction == 'enc' else equiv.DEC, direction + 'rypt_block')
                    I = engine.mk_interp(m, 5_000_000)
                    I.summaries = {'des::des::Des::encrypt': 'desE', 'des::des::Des::decrypt': 'desD'}
                    st = State()
                    I.entry_state = st
                    self_ty = m.ty(f['mir']['locals'][1])['t']
                    I.fresh += 1
                    sobj = ('P', 'self', I.fresh)
                    st.mem[sobj] = I.top(self_ty, 'self')
                    inout_ty = m.ty(f['mir']['locals'][2])
                    block_ty = [I.types[fd['t']]['t'] for fd in inout_ty['variants'][0]['f'] if I.types[fd['t']]['k'] == 'ptr'][0]
                    x = I.top(block_ty, 'x')
                    I.entry_state = None
                    a1, out1 = equiv.inout_arg(I, st, f, x, 'a')
                    status, r = engine.run(I, f['id'], [Ptr(sobj, (), None, None, None, None, False), a1], st)
                    if status != 'ok':
                        chk.fail_closed('C-composition', key + '|run', '%s %s' % (status, str(r)[:200]))
                        continue
                    from ops import flatten
                    xb = [b.term for b in flatten(I, x, block_ty)]
                    yb = [b.term for b in flatten(I, st.mem[out1], block_ty)]
                    if any(t is None for t in yb):
                        chk.violation('C-composition', key, '%s::%srypt_block: output is not a term over the block and the sub-ciphers' % (tyname, direction))
                        continue
                    got = be_word(yb)
                    fmap = part_of_field.get(tyname, {})
                    field_of_part = {p: fi for fi, p in fmap.items()}
                    seq = spec if direction == 'enc' else [('D' if o == 'E' else 'E', p) for (o, p) in reversed(spec)]
                    want = be_word(xb)
                    okmap = True
                    for (o, p) in seq:
                        if p not in field_of_part:
                            okmap = False
                            break
                        want = T.op('fn:des' + o, 64, T.sym('&self.%d' % field_of_part[p], 0), want)
                    if not okmap:
                        chk.violation('C-composition', key, '%s: no field holds key part needed by the specification' % tyname)
                    elif got is want:
                        chk.ok('C-composition', key, dict(type=tyname, direction=direction, composition=' . '.join('%s_K%d' % (o, p) for (o, p) in reversed(seq))))
                    else:
                        chk.violation('C-composition', key, '%s::%srypt_block computes %s; SP 800-67 requires %s' % (
                            tyname, direction, T.show(got, 0, 5), T.show(want, 0, 5)))
            # ---------------- R: Des uses the sixteen subkeys in order / in reverse
            for direction in ('encrypt', 'decrypt'):
                n += 1
                key = '%s|des::des::Des|R|%s' % (cfgname, direction)
                f = find_fn(m, 'des::des::Des::' + direction)
                if f is None:
                    chk.fail_closed('R-subkey-order', key, 'Des::%s not found' % direction)
                    continue
                I = engine.mk_interp(m, 5_000_000)
                I.summaries = {'des::utils::round': 'round', 'des::utils::ip': 'ip', 'des::utils::fp': 'fp'}
                st = State()
                args = engine.default_args(I, st, f)
                status, r = engine.run(I, f['id'], args, st)
                if status != 'ok' or not isinstance(r, AInt) or r.term is None:
                    chk.fail_closed('R-subkey-order', key + '|run', 'Des::%s: %s %s' % (direction, status, str(r)[:200]))
                    continue
                ks = st.mem[args[0].obj].f[0]
                order = list(range(16)) if direction == 'encrypt' else list(reversed(range(16)))
                want = T.op('fn:ip', 64, args[1].term)
                for i in order:
                    want = T.op('fn:round', 64, want, ks.e[i].term)
                want = T.op('fn:fp', 64, T.op('rotr', 64, want, T.const(32, 32)))
                if r.term is want:
                    chk.ok('R-subkey-order', key, dict(fn='Des::' + direction, subkeys='k0..k15' if direction == 'encrypt' else 'k15..k0'))
                else:
                    chk.violation('R-subkey-order', key, 'Des::%s is not fp(rotr32(round-chain(ip(x)))) over the subkeys %s: %s' % (
                        direction, 'in order' if direction == 'encrypt' else 'in reverse order', T.first_diff(r.term, want)))
        chk.floor('instances', n, 'n.' + cfgname)
