"""Herbrand terms with a fixed normalising rewrite system (engine L3: global value numbering).

A term is an interned tuple.  Two computations are *Herbrand-equal* when they build the same term object.
Normal forms applied at construction (each is a bit-vector / ring identity):

  * bit-slices: every term is either an atom or a concatenation `cat` of slices of atoms and constants
    (LSB first).  zext / trunc / byte extraction / from_xx_bytes / to_xx_bytes / bswap / constant shifts /
    masks with constant runs / constant rotations are slice manipulations; OR / XOR / ADD of operands with
    disjoint support is concatenation; slicing distributes over bitwise operators and (for low bits) over
    + - *.
  * XOR is flattened, sorted, pairs cancel, constants fold.
  * + and - over one width are kept as a linear form  c + sum k_i * t_i  (mod 2^w).
  * !!x = x ; rotr(rotl(x, r), r) = x for identical amount terms, rotation amounts are taken modulo the width.
  * comparisons of identical terms fold.
"""
ENABLED = False
INVERSES = {}     # opaque function name -> name of its declared inverse (same first argument)
BITCANON = False  # operands of non-affine operators are first put into bit-level canonical form (bitform.recanon)
_STRUCTURAL = {'id', 'BitXor', 'Not', 'zext', 'trunc', 'byte', 'cat', 'bswap', 'sext'}
TUPLE_INVERSES = {}   # multi-output opaque function 'fn:f' -> 'fn:g' with g(f(x_1..x_n)) = (x_1..x_n)  (proved lemma)

_tab = {}
_serial = {}


def _shallow(t):
    """hash-consing key that does not recurse into (already interned) sub-terms"""
    k = t[0]
    if k in ('c', 's'):
        return t
    if k == 'cat':
        return ('cat', t[1], tuple((id(a), lo, ln) for (a, lo, ln) in t[2]))
    if k == 'lin':
        return ('lin', t[1], t[2], tuple((id(a), c) for (a, c) in t[3]))
    return (k, t[1]) + tuple(id(a) if isinstance(a, tuple) else a for a in t[2:])


def _i(t):
    key = _shallow(t)
    r = _tab.get(key)
    if r is None:
        _tab[key] = t
        _serial[id(t)] = len(_serial)
        return t
    return r


def reset():
    _tab.clear()
    _serial.clear()
    _smemo.clear()


def M(w):
    return (1 << w) - 1


def const(w, v):
    return _i(('c', w, v & M(w)))


def sym(name, w):
    if name is None:
        return None
    return _i(('s', name, w))


def width(t):
    return t[1] if t[0] != 's' else t[2]


def is_const(t):
    return t[0] == 'c'


# ------------------------------------------------------------------ cat / slice
def _parts(t):
    """parts (atom, lo, len) LSB first"""
    if t[0] == 'cat':
        return t[2]
    return ((t, 0, width(t)),)


def _mkcat(w, parts):
    """normalise a list of parts into a term of width w"""
    out = []
    for (a, lo, ln) in parts:
        if ln == 0:
            continue
        if a[0] == 'c':
            a = const(ln, a[2] >> lo)
            lo = 0
        if out:
            (pa, plo, pln) = out[-1]
            if pa[0] == 'c' and a[0] == 'c':
                out[-1] = (const(pln + ln, pa[2] | (a[2] << pln)), 0, pln + ln)
                continue
            if pa is a and plo + pln == lo:
                out[-1] = (pa, plo, pln + ln)
                continue
        out.append((a, lo, ln))
    assert sum(p[2] for p in out) == w, (w, out)
    if len(out) == 1:
        a, lo, ln = out[0]
        if a[0] == 'c':
            return a
        if lo == 0 and ln == width(a):
            return a
    return _i(('cat', w, tuple(out)))


BITWISE = ('BitXor', 'BitAnd', 'BitOr', 'Not')


_smemo = {}


def slice_(t, lo, ln):
    """bits [lo, lo+ln) of t (memoised)"""
    k = (id(t), lo, ln)
    r = _smemo.get(k)
    if r is None:
        r = _slice(t, lo, ln)
        _smemo[k] = r
    return r


def _slice(t, lo, ln):
    w = width(t)
    assert 0 <= lo and lo + ln <= w, (lo, ln, w)
    if lo == 0 and ln == w:
        return t
    if t[0] == 'c':
        return const(ln, t[2] >> lo)
    if t[0] == 'cat':
        out = []
        pos = 0
        for (a, alo, aln) in t[2]:
            s = max(lo, pos)
            e = min(lo + ln, pos + aln)
            if s < e:
                out.append((a, alo + (s - pos), e - s))
            pos += aln
        return _mkcat(ln, out)
    # slices are NOT distributed over operators: an operator node is an atom of the slice normal form, so that
    # bytes written out and read back (to_xx_bytes / from_xx_bytes) re-assemble to the identical term
    if t[0] == 'zext':
        inner = t[2]
        iw = width(inner)
        if lo + ln <= iw:
            return slice_(inner, lo, ln)
        if lo >= iw:
            return const(ln, 0)
        return _mkcat(ln, [(slice_(inner, lo, iw - lo), 0, iw - lo), (const(lo + ln - iw, 0), 0, lo + ln - iw)])
    return _mkcat(ln, [(t, lo, ln)])


def cat(w, ts):
    """concatenate terms, LSB first"""
    parts = []
    for t in ts:
        parts += list(_parts(t))
    return _mkcat(w, parts)


def _support_zero(t):
    """list of (lo, len) ranges of t that are constant zero"""
    z = []
    pos = 0
    for (a, lo, ln) in _parts(t):
        if a[0] == 'c':
            v = a[2]
            # split the constant into zero runs
            i = 0
            while i < ln:
                if (v >> i) & 1 == 0:
                    j = i
                    while j < ln and (v >> j) & 1 == 0:
                        j += 1
                    z.append((pos + i, j - i))
                    i = j
                else:
                    i += 1
        pos += ln
    return z


def _disjoint(a, b, w):
    """can a|b be formed by taking each bit from the operand that is not known-zero there? returns merged term or None"""
    pa, pb = _parts(a), _parts(b)
    # walk both part lists in lock step
    cuts = {0, w}
    pos = 0
    for (_, _, ln) in pa:
        pos += ln
        cuts.add(pos)
    pos = 0
    for (_, _, ln) in pb:
        pos += ln
        cuts.add(pos)
    cuts = sorted(cuts)
    out = []
    for s, e in zip(cuts, cuts[1:]):
        sa = slice_(a, s, e - s)
        sb = slice_(b, s, e - s)
        if sa[0] == 'c' and sa[2] == 0:
            out.append(sb)
        elif sb[0] == 'c' and sb[2] == 0:
            out.append(sa)
        elif sa[0] == 'c' and sb[0] == 'c' and (sa[2] & sb[2]) == 0:
            out.append(const(e - s, sa[2] | sb[2]))
        else:
            return None
    return cat(w, out)


# ------------------------------------------------------------------ constructors
def _xor(w, args):
    flat = []
    c = 0
    for a in args:
        if a[0] == 'BitXor':
            flat += list(a[2:])
        else:
            flat.append(a)
    cnt = {}
    order = []
    for a in flat:
        if a[0] == 'c':
            c ^= a[2]
            continue
        k = id(a)
        if k not in cnt:
            cnt[k] = [a, 0]
            order.append(k)
        cnt[k][1] ^= 1
    rest = [cnt[k][0] for k in order if cnt[k][1]]
    if c:
        rest.append(const(w, c))
    if not rest:
        return const(w, 0)
    if len(rest) == 1:
        return rest[0]
    # try bit-level merge of two disjoint operands (packing halves)
    if len(rest) == 2:
        m = _disjoint(rest[0], rest[1], w)
        if m is not None:
            return m
    rest.sort(key=_key)
    return _i(('BitXor', w) + tuple(rest))


def _key(t):
    """deterministic total order on interned terms (serial number of first construction)"""
    return _serial.get(id(t), -1)


def _lin(w, c, terms):
    """canonical linear form: const + sum k*t"""
    acc = {}
    order = []
    cc = c & M(w)
    for (t, k) in terms:
        k &= M(w)
        if k == 0:
            continue
        if t[0] == 'c':
            cc = (cc + k * t[2]) & M(w)
            continue
        if t[0] == 'lin':
            cc = (cc + k * t[2]) & M(w)
            for (t2, k2) in t[3]:
                kk = id(t2)
                if kk not in acc:
                    acc[kk] = [t2, 0]
                    order.append(kk)
                acc[kk][1] = (acc[kk][1] + k * k2) & M(w)
            continue
        kk = id(t)
        if kk not in acc:
            acc[kk] = [t, 0]
            order.append(kk)
        acc[kk][1] = (acc[kk][1] + k) & M(w)
    ts = [(acc[k][0], acc[k][1]) for k in order if acc[k][1]]
    if not ts:
        return const(w, cc)
    if len(ts) == 1 and ts[0][1] == 1 and cc == 0:
        return ts[0][0]
    ts.sort(key=lambda x: _key(x[0]))
    return _i(('lin', w, cc, tuple(ts)))


def _strip_amount(r, w):
    """rotation / shift amounts are taken modulo w (a power of two)"""
    for _ in range(4):
        if r is None:
            return r
        if r[0] == 'cat':
            # low log2(w) bits of an atom, zero-extended
            parts = r[2]
            lb = w.bit_length() - 1
            if parts and parts[0][1] == 0 and parts[0][2] >= lb and all(p[0][0] == 'c' and p[0][2] == 0 for p in parts[1:]):
                r = parts[0][0]
                continue
            # keep only the low lb bits when the rest is arbitrary: amount mod w
            return r
        if r[0] == 'zext':
            r = r[2]
            continue
        if r[0] == 'BitAnd' and len(r) == 4 and r[3][0] == 'c' and r[3][2] == w - 1:
            r = r[2]
            continue
        if r[0] == 'Rem' and r[3][0] == 'c' and r[3][2] == w:
            r = r[2]
            continue
        break
    return r


def op(name, w, *args):
    if any(a is None for a in args):
        return None
    if BITCANON and name not in _STRUCTURAL and not (name in ('Shl', 'Shr', 'rotl', 'rotr') and args[1][0] == 'c') \
            and not (name in ('BitAnd', 'BitOr') and (args[0][0] == 'c' or args[1][0] == 'c')):
        import bitform
        args = tuple(bitform.recanon(a) for a in args)
    if name == 'id':
        return args[0]
    if name == 'BitXor':
        return _xor(w, args)
    if name in ('Add', 'Sub'):
        a, b = args
        return _lin(w, 0, [(a, 1), (b, 1 if name == 'Add' else -1)])
    if name == 'Neg':
        return _lin(w, 0, [(args[0], -1)])
    if name == 'Mul':
        a, b = args
        if a[0] == 'c' and b[0] == 'c':
            return const(w, a[2] * b[2])
        if a[0] == 'c':
            a, b = b, a
        if b[0] == 'c':
            if b[2] == 0:
                return const(w, 0)
            if b[2] == 1:
                return a
            if b[2] & (b[2] - 1) == 0:
                return op('Shl', w, a, const(32, b[2].bit_length() - 1))
            sp = _mul_spread(w, a, b[2])
            if sp is not None:
                return sp
            return _lin(w, 0, [(a, b[2])])
        x, y = sorted((a, b), key=_key)
        return _i(('Mul', w, x, y))
    if name == 'Not':
        a = args[0]
        if a[0] == 'c':
            return const(w, ~a[2])
        if a[0] == 'Not':
            return a[2]
        if a[0] == 'cat' and len(a[2]) > 1:
            return cat(w, [op('Not', ln, slice_(a, pos, ln)) for (pos, ln) in _cuts(a)])
        return _i(('Not', w, a))
    if name in ('BitAnd', 'BitOr'):
        a, b = args
        if a[0] == 'c' and b[0] == 'c':
            return const(w, (a[2] & b[2]) if name == 'BitAnd' else (a[2] | b[2]))
        if a[0] == 'c':
            a, b = b, a
        if a is b:
            return a
        if b[0] == 'c':
            mask = b[2]
            if name == 'BitAnd':
                if mask == M(w):
                    return a
                if mask == 0:
                    return const(w, 0)
                if a[0] == 'lin' and mask & (mask + 1) == 0:
                    # the low k bits of a sum depend on the low k bits of the summands only: (x + y) & (2^k - 1) is the
                    # k-bit linear form of the truncated operands, zero-extended (sub-word arithmetic on a wider carrier)
                    k = mask.bit_length()
                    return cat(w, [_lin(k, a[2], [(slice_(t, 0, k), c) for (t, c) in a[3]]), const(w - k, 0)])
                # runs of the mask
                out = []
                i = 0
                while i < w:
                    bit = (mask >> i) & 1
                    j = i
                    while j < w and ((mask >> j) & 1) == bit:
                        j += 1
                    out.append(slice_(a, i, j - i) if bit else const(j - i, 0))
                    i = j
                return cat(w, out)
            else:
                if mask == 0:
                    return a
                if mask == M(w):
                    return b
        if name == 'BitOr':
            m = _disjoint(a, b, w)
            if m is not None:
                return m
        x, y = sorted((a, b), key=_key)
        return _i((name, w, x, y))
    if name in ('Shl', 'Shr'):
        a, s = args
        if s[0] == 'c':
            k = s[2] % w
            if k == 0:
                return a
            if name == 'Shl':
                return cat(w, [const(k, 0), slice_(a, 0, w - k)])
            return cat(w, [slice_(a, k, w - k), const(k, 0)])
        return _i((name, w, a, _strip_amount(s, w)))
    if name in ('rotl', 'rotr'):
        a, s = args
        if s[0] == 'c':
            k = s[2] % w
            if name == 'rotr':
                k = (w - k) % w
            if k == 0:
                return a
            return cat(w, [slice_(a, w - k, k), slice_(a, 0, w - k)])
        s = _strip_amount(s, w)
        inv = 'rotr' if name == 'rotl' else 'rotl'
        if a[0] == inv and a[3] is s:
            return a[2]
        return _i((name, w, a, s))
    if name == 'zext':
        a = args[0]
        aw = width(a)
        if aw == w:
            return a
        return cat(w, [a, const(w - aw, 0)])
    if name == 'trunc':
        return slice_(args[0], 0, w)
    if name == 'sext':
        a = args[0]
        aw = width(a)
        if a[0] == 'c':
            v = a[2]
            if v >> (aw - 1):
                v |= M(w) & ~M(aw)
            return const(w, v)
        return _i(('sext', w, a))
    if name == 'byte':
        a, k = args
        return slice_(a, 8 * k[2], 8)
    if name == 'cat':
        return cat(w, list(args))
    if name == 'bswap':
        a = args[0]
        n = w // 8
        return cat(w, [slice_(a, 8 * (n - 1 - i), 8) for i in range(n)])
    if name in ('Eq', 'Ne'):
        a, b = args
        if a is b:
            return const(8, 1 if name == 'Eq' else 0)
        if a[0] == 'c' and b[0] == 'c':
            return const(8, int((a[2] == b[2]) == (name == 'Eq')))
        x, y = sorted((a, b), key=_key)
        return _i((name, 8, x, y))
    if name in ('Lt', 'Le', 'Gt', 'Ge'):
        a, b = args
        if a is b:
            return const(8, 1 if name in ('Le', 'Ge') else 0)
        return _i((name, 8, a, b))
    if name in ('Div', 'Rem'):
        a, b = args
        if a[0] == 'c' and b[0] == 'c' and b[2]:
            return const(w, a[2] // b[2] if name == 'Div' else a[2] % b[2])
        if name == 'Rem' and b[0] == 'c' and b[2] and b[2] & (b[2] - 1) == 0:
            k = b[2].bit_length() - 1
            return cat(w, [slice_(a, 0, k), const(w - k, 0)])
        if name == 'Div' and b[0] == 'c' and b[2] and b[2] & (b[2] - 1) == 0:
            return op('Shr', w, a, const(32, b[2].bit_length() - 1))
        return _i((name, w, a, b))
    # opaque function symbol (intrinsics, summarised callees)
    inv = INVERSES.get(name)
    if inv is not None and len(args) == 2 and args[1][0] == inv and len(args[1]) == 4 and args[1][2] is args[0]:
        return args[1][3]          # f^-1(k, f(k, x)) = x for a declared inverse pair on the same key object
    return _i((name, w) + tuple(args))


def _mul_spread(w, a, c):
    """carry-free multiplication: a has only its low k bits possibly set (a = zero-extension of a k-bit term) and the set
    bits of the constant are at least k apart, so a * c is the concatenation of copies of those k bits"""
    parts = _parts(a)
    k = 0
    pos = 0
    for (t, lo, ln) in parts:
        pos += ln
        if not (t[0] == 'c' and t[2] == 0):
            k = pos
    if k == 0 or k > 16:
        return None
    low = slice_(a, 0, k)
    bits = [i for i in range(w) if (c >> i) & 1]
    if any(q - p < k for p, q in zip(bits, bits[1:])) or bits[-1] + k > w:
        return None
    out = []
    cur = 0
    for p in bits:
        if p > cur:
            out.append(const(p - cur, 0))
        out.append(low)
        cur = p + k
    if cur < w:
        out.append(const(w - cur, 0))
    return cat(w, out)


def tuple_fn(name, ws, args):
    """outputs of the multi-output opaque function `name` (output k has width ws[k]) applied to args; a declared
    inverse applied to all outputs, in order, of one application of its partner returns that application's arguments"""
    if any(a is None for a in args):
        return [None] * len(ws)
    inv = TUPLE_INVERSES.get(name)
    if inv is not None and len(args) == len(ws) and args:
        a0 = args[0]
        if a0[0] == inv + '#0' and len(a0) - 2 == len(ws) and all(
                args[k][0] == '%s#%d' % (inv, k) and len(args[k]) == len(a0) and all(x is y for x, y in zip(args[k][2:], a0[2:]))
                for k in range(len(args))):
            return list(a0[2:])
    return [op('%s#%d' % (name, k), ws[k], *args) for k in range(len(ws))]


def _cuts(t):
    pos = 0
    out = []
    for (_, _, ln) in _parts(t):
        out.append((pos, ln))
        pos += ln
    return out


# ------------------------------------------------------------------ printing
def show(t, depth=0, limit=6):
    if t is None:
        return '?'
    if depth > limit:
        return '...'
    k = t[0]
    if k == 'c':
        return '%#x:%d' % (t[2], t[1])
    if k == 's':
        return t[1]
    if k == 'cat':
        return '{' + ', '.join('%s[%d+:%d]' % (show(a, depth + 1, limit), lo, ln) if not (lo == 0 and ln == width(a)) else show(a, depth + 1, limit)
                               for (a, lo, ln) in t[2]) + '}'
    if k == 'bx':
        import bitform
        return 'xor{' + ', '.join(bitform.atom_name(a, depth + 1, limit) for a in t[2][:6]) + (', ..%d more' % (len(t[2]) - 6) if len(t[2]) > 6 else '') + '}'
    if k == 'lin':
        s = ' + '.join(('%s' % show(x, depth + 1, limit)) if c == 1 else '%#x*%s' % (c, show(x, depth + 1, limit)) for x, c in t[3])
        return '(%s%s)' % (s, ' + %#x' % t[2] if t[2] else '')
    return '%s(%s)' % (k, ', '.join(show(a, depth + 1, limit) if isinstance(a, tuple) else str(a) for a in t[2:]))


def size(t, seen=None):
    if seen is None:
        seen = set()
    if not isinstance(t, tuple) or id(t) in seen:
        return 0
    seen.add(id(t))
    n = 1
    if t[0] == 'cat':
        for (a, _, _) in t[2]:
            n += size(a, seen)
    elif t[0] == 'lin':
        for (a, _) in t[3]:
            n += size(a, seen)
    elif t[0] not in ('c', 's'):
        for a in t[2:]:
            n += size(a, seen)
    return n


def first_diff(a, b, depth=0):
    """a human-readable location of the first difference between two terms"""
    if a is b:
        return None
    if a is None or b is None:
        return 'one side has no term (lost at a join or an unmodelled operation)'
    if a[0] != b[0] or width(a) != width(b) or depth > 12:
        return '%s  vs  %s' % (show(a, 0, 3), show(b, 0, 3))
    if a[0] == 'cat':
        if len(a[2]) != len(b[2]):
            return '%s  vs  %s' % (show(a, 0, 3), show(b, 0, 3))
        for (x, xl, xn), (y, yl, yn) in zip(a[2], b[2]):
            if x is not y or xl != yl or xn != yn:
                d = first_diff(x, y, depth + 1)
                return d or '%s[%d+:%d] vs %s[%d+:%d]' % (show(x, 0, 2), xl, xn, show(y, 0, 2), yl, yn)
    if a[0] == 'lin':
        if a[2] != b[2] or len(a[3]) != len(b[3]):
            return '%s  vs  %s' % (show(a, 0, 3), show(b, 0, 3))
        for (x, xc), (y, yc) in zip(a[3], b[3]):
            if x is not y or xc != yc:
                return first_diff(x, y, depth + 1) or 'coefficients %#x vs %#x' % (xc, yc)
    if a[0] in ('c', 's'):
        return '%s  vs  %s' % (show(a), show(b))
    if len(a) != len(b):
        return '%s  vs  %s' % (show(a, 0, 3), show(b, 0, 3))
    for x, y in zip(a[2:], b[2:]):
        if x is not y:
            if isinstance(x, tuple) and isinstance(y, tuple):
                return first_diff(x, y, depth + 1)
            return '%s vs %s' % (x, y)
    return None
