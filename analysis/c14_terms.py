"""C14 rule X -- the key-expansion routines are eksblowfish ExpandKey, by Herbrand terms (engine L3).

Reference (Provos-Mazieres, as restated in the property text), over a symbolic state (P[0..18), S[0..4)[0..256)),
a symbolic key k[0..n) and a symbolic salt s[0..m), with the Blowfish permutation of the *current* state as an
uninterpreted function  ENC(state contents, l, r) -> (l', r'):

    kw(j) = big-endian word of k[(4j+0) % n], .., k[(4j+3) % n]            (key cycled)
    sw(j) = the same over the salt                                         (salt cycled)
    P[i] ^= kw(i)                                     for i in 0..18
    (l, r) = (0, 0)
    for t in 0..521:   (l, r) = ENC(state, l ^ sw(2t), r ^ sw(2t+1));  entry 2t, 2t+1 of P || S0 || S1 || S2 || S3 = (l, r)

`salted_expand_key(salt, key)` must leave exactly the reference state; `bc_expand_key(key)` must leave the reference
state for the all-zero salt (sw = 0: "the plain expansion equals the salted one with an all-zero salt"); and
`Blowfish::new_from_slice(key)` must be the plain expansion of the initial constants (with rule P this is "equals
ordinary Blowfish keying").  `encrypt` is summarised with its `&self` argument standing for the contents of the state
at the time of the call, so the chaining through the evolving state is part of the compared terms.  Decided for each
enumerated (key length, salt length); no key, salt or state value is enumerated.
"""
from facts import *
import equiv, engine
import terms as T
from values import *
from interp import State, Ptr, _leaf_terms

KEY_QUICK = list(range(1, 25)) + [55, 56, 57, 71, 72, 73, 100]
SALT_QUICK = [1, 2, 3, 4, 5, 7, 8, 12, 15, 16, 17, 20, 24, 32, 64, 71, 72, 73, 100]
KEY_THOROUGH = list(range(1, 81)) + [100, 128]
SALT_THOROUGH = list(range(1, 81)) + [100, 128]


def find_fn(m, pred):
    return [f for f in m.fns if pred(f)]


def cyc_word(bs, j):
    n = len(bs)
    b = [bs[(4 * j + i) % n] for i in range(4)]
    return T.cat(32, [b[3], b[2], b[1], b[0]])


class RefState:
    """P and S as lists of terms, laid out like the struct value so that the digest equals the interpreter's"""

    def __init__(self, v):
        self.shape = []
        for fi, x in enumerate(v.f):
            if isinstance(x, Arr) and x.e and isinstance(x.e[0], Arr):
                self.shape.append('s')
                self.s = [[tm(e) for e in row.e] for row in x.e]
            elif isinstance(x, Arr):
                self.shape.append('p')
                self.p = [tm(e) for e in x.e]
            else:
                self.shape.append(None)

    def leaves(self):
        out = []
        for k in self.shape:
            if k == 's':
                for row in self.s:
                    out.extend(row)
            elif k == 'p':
                out.extend(self.p)
        return out

    def digest(self):
        return T.op('mem', 0, *self.leaves())


def tm(e):
    return e.term if e.term is not None else (T.const(e.w, e.const) if e.const is not None else None)


def reference(ref, kbytes, sbytes, enc):
    for i in range(18):
        ref.p[i] = T.op('BitXor', 32, ref.p[i], cyc_word(kbytes, i))
    l = r = T.const(32, 0)
    for t in range(521):
        if sbytes is not None:
            l = T.op('BitXor', 32, l, cyc_word(sbytes, 2 * t))
            r = T.op('BitXor', 32, r, cyc_word(sbytes, 2 * t + 1))
        d = ref.digest()
        l, r = T.op('fn:%s#0' % enc, 32, d, l, r), T.op('fn:%s#1' % enc, 32, d, l, r)
        if t < 9:
            ref.p[2 * t], ref.p[2 * t + 1] = l, r
        else:
            q = 2 * (t - 9)
            ref.s[q // 256][q % 256], ref.s[q // 256][q % 256 + 1] = l, r
    return ref


def sym_slice(I, st, name, n):
    I.fresh += 1
    obj = ('P', name, I.fresh)
    bs = [topint(8, False, T.sym('%s[%d]' % (name, i), 8)) for i in range(n)]
    st.mem[obj] = Arr(engine.u8_slice_type(I), bs)
    return Ptr(obj, (), I.usize(0), I.usize(n), None, None, False), [b.term for b in bs]


def compare(chk, rule, key, got_v, ref, what, detail):
    got = []
    _leaf_terms(got_v, got)
    want = ref.leaves()
    if len(got) != len(want):
        chk.violation(rule, key, '%s: state has %d words, reference %d' % (what, len(got), len(want)))
        return False
    for i, (g, w) in enumerate(zip(got, want)):
        if g is None or g is not w:
            chk.violation(rule, key, '%s leaves a state that differs from eksblowfish ExpandKey at state word %d: %s' % (
                what, i, T.first_diff(g, w) if g is not None else 'not a term'))
            return False
    chk.ok(rule, key, detail)
    return True


def job(a):
    """one (entry point, key length, salt length) comparison; returns (rule, key, ok?, message/detail)"""
    cfgname, fdir, which, n, msalt = a
    if fdir not in _FACTS:
        _FACTS[fdir] = Facts(cfgname, fdir)
    return _job(_FACTS[fdir].mono, cfgname, which, n, msalt)


_FACTS = {}


class _Collect:
    def __init__(self):
        self.out = []

    def ok(self, rule, key, d):
        self.out.append(('ok', rule, key, d))

    def violation(self, rule, key, msg):
        self.out.append(('violation', rule, key, msg))

    def fail_closed(self, rule, key, msg):
        self.out.append(('fail_closed', rule, key, msg))


def _job(m, cfgname, which, n, msalt):
    chk = _Collect()
    encs = find_fn(m, lambda f: f['crate'] == 'blowfish' and f.get('name') == 'encrypt' and 'impl_trait' not in f and
                   f.get('impl_self', '').startswith('blowfish::Blowfish'))
    with equiv.TermMode():
        engine._INTERPS.clear()
        I = engine.mk_interp(m, 60_000_000)
        I.summaries = {f['path']: ('deep', 'bfenc') for f in encs}
        st = State()
        if which in ('salted_expand_key', 'bc_expand_key'):
            rule = 'X-salted-expansion' if which == 'salted_expand_key' else 'X-plain-is-zero-salt'
            key = '%s|Blowfish<BE>::%s|key=%d%s' % (cfgname, which, n, '|salt=%d' % msalt if msalt else '')
            f = [g for g in m.fns if g.get('name') == 'verif_root__blowfish__Blowfish__' + which]
            if not f:
                chk.fail_closed(rule, key, 'root for %s not found' % which)
                return chk.out
            f = f[0]
            I.entry_state = st
            self_ty = I.types[f['mir']['locals'][1]]['t']
            I.fresh += 1
            sobj = ('P', 'self', I.fresh)
            st.mem[sobj] = I.top(self_ty, 'self')
            I.entry_state = None
            ref = RefState(st.mem[sobj])
            args = [Ptr(sobj, (), None, None, None, None, True)]
            sb = None
            if which == 'salted_expand_key':
                sp, sb = sym_slice(I, st, 's', msalt)
                args.append(sp)
            kp, kb = sym_slice(I, st, 'k', n)
            args.append(kp)
            status, r = engine.run(I, f['id'], args, st)
            if status != 'ok':
                chk.fail_closed(rule, key + '|run', '%s: %s %s' % (which, status, str(r)[:200]))
                return chk.out
            reference(ref, kb, sb, 'bfenc')
            compare(chk, rule, key, st.mem[sobj], ref, 'Blowfish::%s(key of %d bytes%s)' % (which, n, ', salt of %d bytes' % msalt if msalt else ''),
                    dict(fn=which, key_len=n, salt_len=msalt, state_words=1042, chained_encryptions=521))
        else:
            rule = 'X-ordinary-keying'
            key = '%s|%s::new_from_slice|key=%d' % (cfgname, which, n)
            rr = [(nm, info, inst) for nm, info, inst in m.roots_of(op='new_from_slice') if info['pub_path'] == which]
            init = find_fn(m, lambda f: f['crate'] == 'blowfish' and f.get('name') == 'init_state')
            if not rr or not init:
                chk.fail_closed(rule, key, 'new_from_slice / init_state of %s not rooted' % which)
                return chk.out
            kp, kb = sym_slice(I, st, 'k', n)
            status, r = engine.run(I, rr[0][2], [kp], st)
            if status != 'ok' or not isinstance(r, Enum) or r.variant != 0:
                chk.fail_closed(rule, key + '|run', 'new_from_slice(len=%d): %s %s' % (n, status, str(r)[:200]))
                return chk.out
            # the initial constants: the abstract result of init_state() of the same instantiation
            want_ty = r.f[0].ty
            st0 = State()
            v0 = None
            for g in init:
                s0, x = engine.run(I, g['id'], [], st0)
                if s0 == 'ok' and getattr(x, 'ty', None) == want_ty:
                    v0 = x
            if v0 is None:
                chk.fail_closed(rule, key + '|init', 'init_state of %s could not be evaluated' % which)
                return chk.out
            ref = RefState(v0)
            reference(ref, kb, None, 'bfenc')
            compare(chk, rule, key, r.f[0], ref, '%s::new_from_slice(key of %d bytes)' % (which, n),
                    dict(type=which, key_len=n, relation='= ExpandKey(InitState(), 0, key)'))
    return chk.out


def delegation_by_terms(m, cfgname):
    """P' -- bc_encrypt(state, lr) is the state's permutation applied to lr, and bc_init_state() is init_state(), decided on
    values / terms rather than on the shape of the two one-line bodies.  Returns [(kind, rule, key, payload)]"""
    chk = _Collect()
    encs = find_fn(m, lambda f: f['crate'] == 'blowfish' and f.get('name') == 'encrypt' and 'impl_trait' not in f and
                   f.get('impl_self', '').startswith('blowfish::Blowfish'))
    with equiv.TermMode():
        engine._INTERPS.clear()
        I = engine.mk_interp(m, 20_000_000)
        I.summaries = {f['path']: ('deep', 'bfenc') for f in encs}
        key = '%s|Blowfish<BE>::bc_encrypt' % cfgname
        f = [g for g in m.fns if g.get('name') == 'verif_root__blowfish__Blowfish__bc_encrypt']
        if not f:
            chk.fail_closed('P-pure-delegation', key, 'root for bc_encrypt not found')
        else:
            f = f[0]
            st = State()
            I.entry_state = st
            self_ty = I.types[f['mir']['locals'][1]]['t']
            I.fresh += 1
            sobj = ('P', 'self', I.fresh)
            st.mem[sobj] = I.top(self_ty, 'self')
            I.entry_state = None
            leaves = []
            _leaf_terms(st.mem[sobj], leaves)
            lr = Arr(f['mir']['locals'][2], [topint(32, False, T.sym('l', 32)), topint(32, False, T.sym('r', 32))])
            status, r = engine.run(I, f['id'], [Ptr(sobj, (), None, None, None, None, False), lr], st)
            d = T.op('mem', 0, *leaves) if all(x is not None for x in leaves) else None
            want = [T.op('fn:bfenc#%d' % k, 32, d, lr.e[0].term, lr.e[1].term) for k in range(2)] if d is not None else None
            got = [e.term for e in r.e] if status == 'ok' and isinstance(r, Arr) else None
            after = []
            _leaf_terms(st.mem[sobj], after)
            if status != 'ok' or got is None or want is None:
                chk.fail_closed('P-pure-delegation', key + '|run', 'bc_encrypt: %s %s' % (status, str(r)[:150]))
            elif any(g is not w for g, w in zip(got, want)) or any(a is not b for a, b in zip(after, leaves)):
                chk.violation('P-pure-delegation', key, 'Blowfish::bc_encrypt(lr) is not the current state\'s Blowfish permutation applied to lr with the state left unchanged: %s' % (
                    T.first_diff(got[0], want[0]) if got[0] is not want[0] else 'second word / state differs'))
            else:
                chk.ok('P-pure-delegation', key, dict(fn='bc_encrypt', equals='encrypt(state, lr), state unchanged'))
        # bc_init_state() == init_state()
        key = '%s|Blowfish<BE>::bc_init_state' % cfgname
        f = [g for g in m.fns if g.get('name') == 'verif_root__blowfish__Blowfish__bc_init_state']
        init = find_fn(m, lambda g: g['crate'] == 'blowfish' and g.get('name') == 'init_state')
        if not f or not init:
            chk.fail_closed('P-pure-delegation', key, 'bc_init_state / init_state not found')
        else:
            st = State()
            s1, a = engine.run(I, f[0]['id'], [], st)
            ok = False
            for g in init:
                s2, b = engine.run(I, g['id'], [], State())
                if s1 == 'ok' and s2 == 'ok' and getattr(a, 'ty', None) == getattr(b, 'ty', 0):
                    la, lb = [], []
                    _leaf_terms(a, la)
                    _leaf_terms(b, lb)
                    ok = len(la) == len(lb) and all(x is not None and x is y for x, y in zip(la, lb))
            if ok:
                chk.ok('P-pure-delegation', key, dict(fn='bc_init_state', equals='init_state() (1042 constant words)'))
            else:
                chk.violation('P-pure-delegation', key, 'Blowfish::bc_init_state() does not return the initial constants of init_state()')
    return chk.out


def run_rule(chk, cfgname, F, pool=None):
    m = F.mono
    thorough = chk.tier == 'thorough'
    keys = KEY_THOROUGH if thorough else KEY_QUICK
    salts = SALT_THOROUGH if thorough else SALT_QUICK
    jobs = []
    for n in keys:
        jobs.append((cfgname, 'bc_expand_key', n, 0))
    # key and salt are read through independent cursors: sweep each with the other fixed, plus a diagonal
    for n in keys:
        jobs.append((cfgname, 'salted_expand_key', n, 16))
    for ms in salts:
        for n in ((5, 72) if thorough else (5,)):
            jobs.append((cfgname, 'salted_expand_key', n, ms))
    for n in range(4, 57) if thorough else (4, 5, 7, 8, 16, 17, 55, 56):
        for ty in ('crate::X_Blowfish', 'blowfish::BlowfishLE'):
            jobs.append((cfgname, ty, n, 0))
    jobs = sorted(set(jobs), key=str)
    if pool is None:
        results = [_job(m, *j) for j in jobs]
    else:
        results = pool.map(job, [(j[0], F.dir) + j[1:] for j in jobs], chunksize=1)
    n = 0
    results = list(results) + [delegation_by_terms(m, cfgname)]
    for out in results:
        for (kind, rule, key, d) in out:
            n += 1
            getattr(chk, kind)(rule, key, d)
    return n
