#!/bin/bash
# run every claimed check (quick tier by default) on the current /repo tree; prints one line per check
cd /verif
T=${1:-quick}
for id in $(python3 -c "import json;print(' '.join(c['property_id'] for c in json.load(open('MANIFEST.json'))['checks']))"); do
  ./verif check $id --tier $T 2>&1 | grep -E "^(C[0-9]+ tier|VIOLATION|KNOWN-FINDING)" | cut -c1-260
done
