"""Bit-level normal forms on top of the Herbrand terms of terms.py (engine L3b).

 * `bitform(t)`  -- the GF(2)-affine normal form of a term: for every bit of t the set of *atoms* whose XOR it is (atom 0
   is the constant 1).  Constants, symbols, concatenation / slicing (hence constant shifts, rotations, masks with
   constants, byte packing), XOR and NOT are affine and are expanded exactly; every other operator (AND / OR of two
   non-constant operands, +, table lookups, summarised callees ...) is an *opaque* term whose bits are atoms.  Bit
   permutations, delta swaps, ShiftRows / MixColumns in bitsliced form, Serpent's linear transformation and their
   inverses are all affine: composing a map with its inverse yields single atoms again.
 * `recanon(t)`  -- the canonical representative of the class of terms with the same bitform: runs of consecutive atoms
   of one opaque term become a slice of that term again, constant runs become constants, anything else a hash-consed
   XOR-set node.  Two terms are bit-level equal iff their `recanon` is the identical object.
 * `truth_tables(term, vars)` -- the complete normal form of a *pure boolean* term (only XOR / AND / OR / NOT applied
   position-wise to at most 8 variable words): its truth table as a 2^n-bit integer (the canonical form an ROBDD would
   give).  Used for the S-box lemmas  inv_sbox(sbox(u)) = u  on bitsliced S-box circuits.
Nothing here evaluates the program on data: the inputs are the term DAGs the abstract interpreter built.
"""
import terms as T

_atoms = {}        # (id(term), bit) -> atom id
_atom_of = [None]  # atom id -> (term, bit) ; id 0 = constant one
_bf = {}           # id(term) -> tuple of frozensets
_rc = {}
_bxkeys = {}
_pw = {}           # (name, k, inputs) -> atom id      position-wise opaque functions (bitsliced S-boxes)
PW_INVERSES = {}   # 'pw:f' -> 'pw:g' : g(f(x_1..x_n)) = (x_1..x_n) position-wise (a proved lemma, see c01.py)
ISA = {}          # operator name -> expansion of a CPU instruction into bit-level normal form (installed by c02_hw)
ONE = frozenset([0])
ZERO = frozenset()


def reset():
    _atoms.clear()
    del _atom_of[1:]
    _bf.clear()
    _rc.clear()
    _bxkeys.clear()
    _pw.clear()
    PW_INVERSES.clear()
    ISA.clear()


def _atom(t, i):
    k = (id(t), i)
    a = _atoms.get(k)
    if a is None:
        a = len(_atom_of)
        _atoms[k] = a
        _atom_of.append((t, i))
    return a


def _opaque(t):
    return tuple(frozenset([_atom(t, i)]) for i in range(T.width(t)))


def pw_bit(name, j, ins):
    """bit j of the position-wise opaque function `name` applied to the bits `ins` (one XOR-set per argument word) of one
    bit position; a declared (proved) inverse pair cancels"""
    inv = PW_INVERSES.get(name)
    if inv is not None:
        X = None
        for q, x in enumerate(ins):
            if len(x) != 1:
                X = None
                break
            (a,) = x
            d = _atom_of[a]
            if d[0] != 'pw' or d[1] != inv or d[2] != q or len(d[3]) != len(ins) or (X is not None and d[3] != X):
                X = None
                break
            X = d[3]
        if X is not None:
            return X[j]
    key = (name, j, ins)
    a = _pw.get(key)
    if a is None:
        a = len(_atom_of)
        _pw[key] = a
        _atom_of.append(('pw', name, j, ins))
    return frozenset([a])


def bitform(t):
    r = _bf.get(id(t))
    if r is not None:
        return r
    k = t[0]
    if k == 'c':
        r = tuple(ONE if (t[2] >> i) & 1 else ZERO for i in range(t[1]))
    elif k == 'cat':
        out = []
        for (a, lo, ln) in t[2]:
            out.extend(bitform(a)[lo:lo + ln])
        r = tuple(out)
    elif k == 'BitXor':
        acc = list(bitform(t[2]))
        for a in t[3:]:
            b = bitform(a)
            for i in range(len(acc)):
                if b[i]:
                    acc[i] = acc[i] ^ b[i]
        r = tuple(acc)
    elif k == 'Not':
        r = tuple(x ^ ONE for x in bitform(t[2]))
    elif k in ('BitAnd', 'BitOr'):
        a, b = bitform(t[2]), bitform(t[3])
        out = []
        opq = None
        for i in range(len(a)):
            x, y = a[i], b[i]
            if k == 'BitAnd':
                if not x or not y:
                    out.append(ZERO)
                elif x == ONE:
                    out.append(y)
                elif y == ONE:
                    out.append(x)
                elif x == y:
                    out.append(x)
                else:
                    out.append(frozenset([_atom(t, i)]))
            else:
                if not x:
                    out.append(y)
                elif not y:
                    out.append(x)
                elif x == ONE or y == ONE:
                    out.append(ONE)
                elif x == y:
                    out.append(x)
                else:
                    out.append(frozenset([_atom(t, i)]))
        r = tuple(out)
    elif k == 'bx':
        r = (frozenset(t[2]),)
    elif k.startswith('pw:'):
        # output #j of a position-wise function of the argument words: bit i depends on bits i of the arguments only
        name, j = k.split('#')
        j = int(j)
        bfs = [bitform(a) for a in t[2:]]
        out = [pw_bit(name, j, tuple(b[i] for b in bfs)) for i in range(t[1])]
        r = tuple(out)
    else:
        h = ISA.get(k.split('#')[0]) if ISA else None
        r = h(t) if h is not None else None
        if r is None:
            r = _opaque(t)
    _bf[id(t)] = r
    return r


def from_bits(bits):
    """canonical term for a tuple of XOR-sets"""
    parts = []
    w = len(bits)
    i = 0
    while i < w:
        b = bits[i]
        if not b or b == ONE:
            j = i
            v = 0
            while j < w and (not bits[j] or bits[j] == ONE):
                if bits[j]:
                    v |= 1 << (j - i)
                j += 1
            parts.append(T.const(j - i, v))
            i = j
            continue
        if len(b) == 1 and _atom_of[next(iter(b))][0] != 'pw':
            (a,) = b
            t, pos = _atom_of[a]
            j = i + 1
            while j < w and len(bits[j]) == 1 and pos + (j - i) < T.width(t):
                (a2,) = bits[j]
                if _atom_of[a2][0] == 'pw' or _atom_of[a2][0] is not t or _atom_of[a2][1] != pos + (j - i):
                    break
                j += 1
            parts.append(T.slice_(t, pos, j - i))
            i = j
            continue
        key = tuple(sorted(b))
        key = _bxkeys.setdefault(key, key)       # one object per set, so that hash-consing by identity works
        parts.append(T._i(('bx', 1, key)))
        i += 1
    return T.cat(w, parts)


def recanon(t):
    if t is None:
        return None
    r = _rc.get(id(t))
    if r is None:
        if t[0] in ('c', 's'):
            r = t
        else:
            r = from_bits(bitform(t))
        _rc[id(t)] = r
        _rc[id(r)] = r
    return r


def atom_name(a, depth=0, limit=6):
    if a == 0:
        return '1'
    d = _atom_of[a] if a < len(_atom_of) else None
    if d is None:
        return 'atom%d' % a
    if d[0] == 'pw':
        return '%s#%d(bit position inputs..)' % (d[1][3:], d[2])
    return '%s.bit%d' % (T.show(d[0], depth + 1, limit), d[1])


class NotPure(Exception):
    pass


def truth_tables(terms, variables):
    """truth tables (2^n-bit integers) of pure boolean terms over the given variable symbols, position-wise.
    raises NotPure if a term uses anything but XOR / AND / OR / NOT / all-zero / all-one constants / the variables."""
    n = len(variables)
    assert n <= 10
    size = 1 << n
    full = (1 << size) - 1
    var = {}
    for k, v in enumerate(variables):
        tab = 0
        for e in range(size):
            if (e >> k) & 1:
                tab |= 1 << e
        var[id(v)] = tab
    memo = {}

    def ev(t):
        r = memo.get(id(t))
        if r is not None:
            return r
        k = t[0]
        if id(t) in var:
            r = var[id(t)]
        elif k == 'c':
            if t[2] == 0:
                r = 0
            elif t[2] == T.M(t[1]):
                r = full
            else:
                raise NotPure('constant %x' % t[2])
        elif k == 'BitXor':
            r = 0
            for a in t[2:]:
                r ^= ev(a)
        elif k == 'BitAnd':
            r = ev(t[2]) & ev(t[3])
        elif k == 'BitOr':
            r = ev(t[2]) | ev(t[3])
        elif k == 'Not':
            r = full ^ ev(t[2])
        else:
            raise NotPure('operator %s' % k)
        memo[id(t)] = r
        return r
    return [ev(t) for t in terms], [var[id(v)] for v in variables]
