#!/usr/bin/env python3
"""Run the registered checks against every seeded change and record which checks report it.

Each patch is applied in a scratch git worktree of /repo's HEAD (never in /repo itself); the checks analyse that tree
through VERIF_REPO.  Results: seeded/<id>/detected.json and seeded/RESULTS.md.
usage: score_seeded.py [--shard i/n] [<seeded id> ...]      (shards run concurrently, each in its own worktree)
       score_seeded.py --summary                            (assemble seeded/RESULTS.md from the detected.json files)
"""
import json, os, re, shutil, subprocess, sys

VERIF = '/verif'
WT = '/tmp/score/wt'
RELATED = {
    'C02': ['C02', 'C12', 'C04', 'C01', 'C03'],
    'C01': ['C01', 'C05', 'C04', 'C18', 'C03'], 'C03': ['C03', 'C04', 'C12', 'C01'], 'C04': ['C04', 'C05', 'C20'], 'C05': ['C05', 'C01', 'C13', 'C12', 'C04', 'C03'], 'C11': ['C11'],
    'C12': ['C12'], 'C13': ['C13'], 'C14': ['C14', 'C03'], 'C15': ['C15', 'C12', 'C04'], 'C16': ['C16'], 'C17': ['C17', 'C20', 'C15'],
    'C18': ['C18', 'C01', 'C20'], 'C19': ['C19'], 'C20': ['C20', 'C18'],
}
THOROUGH = {'C17a-3', 'C02e-2'}
import re


def sh(cmd, cwd=None, env=None):
    r = subprocess.run(cmd, shell=True, cwd=cwd, env=env, stdout=subprocess.PIPE, stderr=subprocess.STDOUT, text=True)
    return r.returncode, r.stdout


def summary():
    rows = []
    sd = os.path.join(VERIF, 'seeded')
    ids = sorted(x for x in os.listdir(sd) if x != 'benign' and os.path.isdir(os.path.join(sd, x))) + \
        ['benign/' + x for x in sorted(os.listdir(os.path.join(sd, 'benign')))]
    for sid in ids:
        d = os.path.join(sd, sid)
        if not os.path.exists(os.path.join(d, 'detected.json')):
            rows.append((sid, '?', 'not scored'))
            continue
        meta = json.load(open(os.path.join(d, 'meta.json')))
        det = json.load(open(os.path.join(d, 'detected.json')))
        prop = meta.get('property') or meta.get('breaks_property')
        if not det.get('applies'):
            rows.append((sid, prop, 'patch does not apply to the repaired tree'))
            continue
        caught = []
        for c, r in det['checks'].items():
            if r['violations']:
                rules = sorted({m.group(1) for f in r['first'] for m in [re.match(r'\[([^\]]+)\]', f)] if m})
                caught.append('%s (%s)' % (c, ', '.join(rules) or '%d violations' % r['violations']))
        if meta.get('kind') == 'benign':
            rows.append((sid, 'benign', ('FALSE ALARM: ' + ', '.join(caught)) if caught else 'silent (as required)'))
        else:
            rows.append((sid, prop, ', '.join(caught) if caught else 'NOT DETECTED'))
    with open(os.path.join(sd, 'RESULTS.md'), 'w') as f:
        f.write('# Seeded changes vs. checks (written by tools/score_seeded.py)\n\n| seeded | property | reported by (rules) |\n|---|---|---|\n')
        for r in rows:
            f.write('| %s | %s | %s |\n' % r)
    nb = [r for r in rows if r[1] != 'benign']
    print('%d seeded: %d detected, %d not detected, %d unscored; benign false alarms: %d' % (
        len(nb), sum(1 for r in nb if r[2] not in ('NOT DETECTED', 'not scored') and not r[2].startswith('patch')),
        sum(1 for r in nb if r[2] == 'NOT DETECTED'), sum(1 for r in rows if r[2] == 'not scored'),
        sum(1 for r in rows if r[2].startswith('FALSE'))))


def main():
    global WT
    if '--summary' in sys.argv:
        return summary()
    shard = None
    if '--shard' in sys.argv:
        i = sys.argv.index('--shard')
        shard = tuple(int(x) for x in sys.argv[i + 1].split('/'))
        del sys.argv[i:i + 2]
        WT = '/tmp/score/wt-%d' % shard[0]
    ids = sys.argv[1:] or (sorted(x for x in os.listdir(os.path.join(VERIF, 'seeded')) if x != 'benign') +
                           ['benign/' + x for x in sorted(os.listdir(os.path.join(VERIF, 'seeded', 'benign')))])
    ids = [i for i in ids if os.path.isdir(os.path.join(VERIF, 'seeded', i))]
    if shard:
        ids = ids[shard[0]::shard[1]]
    tag = '-%d' % shard[0] if shard else ''
    ALL = [c['property_id'] for c in json.load(open(os.path.join(VERIF, 'MANIFEST.json')))['checks']]
    os.makedirs('/tmp/score', exist_ok=True)
    sh('git -C /repo worktree prune')
    if os.path.exists(WT):
        sh('git -C /repo worktree remove --force %s' % WT)
        shutil.rmtree(WT, ignore_errors=True)
    rc, o = sh('git -C /repo worktree add -f --detach %s HEAD' % WT)
    assert rc == 0, o
    env = dict(os.environ, VERIF_REPO=WT, VERIF_CACHE='/tmp/score/cache' + tag, VERIF_SCRATCH='/tmp/score/scratch' + tag)
    rows = []
    try:
        for sid in ids:
            d = os.path.join(VERIF, 'seeded', sid)
            meta = json.load(open(os.path.join(d, 'meta.json')))
            prop = meta.get('property') or meta.get('breaks_property')
            if os.path.exists(os.path.join(d, 'detected.json')) and not os.environ.get('SCORE_FORCE'):
                continue
            sh('git checkout -- . && git clean -fdq', cwd=WT)
            rc, o = sh('git apply %s' % os.path.join(d, 'patch.diff'), cwd=WT)
            if rc != 0:
                rows.append((sid, prop, 'patch does not apply to the repaired tree', {}))
                json.dump(dict(applies=False, why=o[-300:]), open(os.path.join(d, 'detected.json'), 'w'), indent=1)
                continue
            res = {}
            tier = 'thorough' if sid in THOROUGH else 'quick'
            order = (meta.get('checks') or ALL) if meta.get('kind') == 'benign' else ([prop] + [c for c in RELATED.get(prop, [prop]) if c != prop])
            for cid in order:
                if meta.get('kind') != 'benign' and any(r['violations'] for r in res.values()):
                    break       # already reported by an earlier check: the remaining related checks are not needed
                rc, o = sh('python3 %s/verif check %s --tier %s' % (VERIF, cid, tier), cwd=VERIF, env=dict(env, VERIF_EVIDENCE='/tmp/score/evidence' + tag))
                viol = [l for l in o.splitlines() if l.startswith('VIOLATION')]
                first = [l.strip() for l in o.splitlines() if l.startswith('  [')][:2]
                res[cid] = dict(exit=rc, violations=len(viol), first=[f[:300] for f in first])
            json.dump(dict(applies=True, tier=tier, checks=res), open(os.path.join(d, 'detected.json'), 'w'), indent=1)
            caught = [c for c, r in res.items() if r['violations']]
            if meta.get('kind') == 'benign':
                rows.append((sid, 'benign', ('FALSE ALARM: ' + ', '.join(caught)) if caught else 'silent (as required)', res))
            else:
                rows.append((sid, prop, ', '.join(caught) if caught else 'NOT DETECTED', res))
            print(sid, prop, caught, flush=True)
    finally:
        sh('git -C /repo worktree remove --force %s' % WT)
        shutil.rmtree('/tmp/score/cache' + tag, ignore_errors=True)
        shutil.rmtree('/tmp/score/scratch' + tag, ignore_errors=True)
        shutil.rmtree('/tmp/score/evidence' + tag, ignore_errors=True)
    if not shard:
        summary()


if __name__ == '__main__':
    main()
