"""C03 -- output independent of backend, cfg flags and cargo features (clause level).

 F  cargo features change no cipher code (sound for the feature clause): for every function of every /repo crate that
    exists both with and without the optional features (zeroize, hazmat, bcrypt), the normalised MIR (resolved callees,
    evaluated constants, control flow; spans / local names / table indices dropped) is *identical* in the two builds.
    Exempt: `Drop::drop` impls (the wipe is the feature).  Identical MIR => identical function.  A function whose MIR
    differs is decided semantically (same_function_by_terms): same result terms on the same symbolic arguments.
 S  `serpent_no_unroll` == unrolled: encrypt_block and decrypt_block of Serpent, interpreted with Herbrand terms on a
    symbolic instance and block under the two configurations in one term table, yield identical output terms
    (global value numbering: the loop form unrolls to the macro form under constant propagation).
 C  `aes_compact` == default fixslice: rule_C below (bit-level canonical terms, instance from KeyInit::new on a symbolic
    key, so the key schedules are compared too).
 (Run-time selection of the AES backend by the CPU token is decided under C12 rule U.)
Not decided: equality of AES-NI / ARMv8 / fixslice64 / fixslice32 and of the Kuznyechik SSE2 / NEON /
table / compact back-ends -- different algorithms for the same function.
"""
import hashlib, json
from facts import *


def norm_fn(c, f):
    """a canonical string of a per-crate MIR body: type ids -> type strings, allocation ids -> content, no lines"""
    types = c.types
    allocs = c.allocs

    def ty(i):
        return types[i]['s'] if isinstance(i, int) and 0 <= i < len(types) else i

    def alloc(a, depth=0):
        d = allocs.get(a)
        if d is None:
            return '?'
        if d['k'] == 'static':
            return 'static:' + d['path']
        if d['k'] != 'mem':
            return d['k']
        return 'mem:%s:%s' % (d['bytes'], [(o, alloc(r, depth + 1)) for (o, r) in d.get('ptrs', [])] if depth < 4 else '')

    def const(k):
        out = {}
        for kk, v in k.items():
            if kk == 't':
                out['t'] = ty(v)
            elif kk in ('ptr', 'alloc'):
                out[kk] = alloc(v)
            elif kk == 'fn':
                out['fn'] = callee(v)
            else:
                out[kk] = v
        return out

    def callee(cd):
        return dict(decl=cd.get('decl'), path=cd.get('path'), gargs=cd.get('gargs'), ik=cd.get('ik'))

    def place(p):
        out = [p[0]]
        for e in p[1:]:
            if e == '*':
                out.append('*')
            elif e[0] == 'f':
                out.append(['f', e[1], ty(e[2])])
            elif e[0] in ('o', 'u'):
                out.append([e[0], ty(e[1])])
            else:
                out.append(e)
        return out

    def op(o):
        if o[0] in ('cp', 'mv'):
            return [o[0], place(o[1])]
        if o[0] == 'k':
            return ['k', const(o[1])]
        return o

    def rv(r):
        k = r[0]
        if k == 'use':
            return ['use', op(r[1])]
        if k == 'rep':
            return ['rep', op(r[1]), r[2]]
        if k in ('ref', 'raw'):
            return [k, r[1], place(r[2])]
        if k == 'cast':
            return ['cast', r[1], op(r[2]), ty(r[3]), ty(r[4])]
        if k == 'bin':
            return ['bin', r[1], op(r[2]), op(r[3]), ty(r[4])]
        if k == 'un':
            return ['un', r[1], op(r[2]), ty(r[3])]
        if k == 'discr':
            return ['discr', place(r[1])]
        if k == 'agg':
            kd = list(r[1])
            if kd[0] in ('array', 'closure', 'adt', 'rawptr'):
                kd[1] = ty(kd[1])
            return ['agg', kd, [op(o) for o in r[2]]]
        return r

    body = f['mir']
    out = dict(argc=body['argc'], locals=[ty(t) for t in body['locals']], bbs=[])
    for b in body['bbs']:
        if b.get('cleanup'):
            out['bbs'].append('cleanup')
            continue
        ss = []
        for s in b['s']:
            if s[0] == '=':
                ss.append(['=', place(s[1]), rv(s[2])])
            elif s[0] == 'dead':
                ss.append(s)
            elif s[0] == 'setdiscr':
                ss.append(['setdiscr', place(s[1]), s[2]])
            elif s[0] == 'assume':
                ss.append(['assume', op(s[1])])
            else:
                ss.append([s[0]] + [op(x) if isinstance(x, list) else x for x in s[1:-1]])
        t = b['t']
        tt = dict(k=t['k'])
        for kk in ('t', 'o', 'v', 'e'):
            if kk in t:
                tt[kk] = t[kk]
        if 'op' in t:
            tt['op'] = op(t['op'])
        if 'f' in t:
            tt['f'] = callee(t['f'])
        if 'fop' in t:
            tt['fop'] = op(t['fop'])
        if 'a' in t:
            tt['a'] = [op(a) for a in t['a']]
        if 'd' in t:
            tt['d'] = place(t['d'])
        if 'p' in t:
            tt['p'] = place(t['p'])
        if 'c' in t:
            tt['c'] = op(t['c'])
        if 'm' in t:
            tt['m'] = {kk: (op(v) if isinstance(v, list) else v) for kk, v in t['m'].items()}
        out['bbs'].append(dict(s=ss, t=tt))
    return json.dumps(out, sort_keys=True)


def first_difference(a, b):
    ja, jb = json.loads(a), json.loads(b)
    if ja['locals'] != jb['locals'] or len(ja['bbs']) != len(jb['bbs']):
        return 'different locals / number of basic blocks (%d vs %d)' % (len(ja['bbs']), len(jb['bbs']))
    for i, (x, y) in enumerate(zip(ja['bbs'], jb['bbs'])):
        if x != y:
            if isinstance(x, dict) and isinstance(y, dict):
                for sx, sy in zip(x['s'], y['s']):
                    if sx != sy:
                        return 'bb%d: %s  vs  %s' % (i, json.dumps(sx)[:160], json.dumps(sy)[:160])
                return 'bb%d terminator: %s  vs  %s' % (i, json.dumps(x['t'])[:160], json.dumps(y['t'])[:160])
            return 'bb%d' % i
    return '?'


def same_function_by_terms(Fb, Ff, path):
    """None if every monomorphic instance of `path` computes the same terms in the two builds, else a reason"""
    import equiv, engine
    import terms as T
    from interp import State, Ptr, _leaf_terms
    from values import Arr, topint
    mb, mf = Fb.mono, Ff.mono
    ib = {f['full']: f for f in mb.fns if f.get('path') == path}
    jf = {f['full']: f for f in mf.fns if f.get('path') == path}
    if not ib or set(ib) != set(jf):
        return 'no comparable monomorphic instances (%d / %d)' % (len(ib), len(jf))
    try:
        with equiv.TermMode():
            for full in sorted(ib):
                f0 = ib[full]
                slice_params = [i for i in range(1, f0['mir']['argc'] + 1)
                                if mb.ty(f0['mir']['locals'][i])['k'] in ('ref', 'ptr') and mb.ty(mb.ty(f0['mir']['locals'][i])['t'])['k'] == 'slice'
                                and mb.ty(mb.ty(mb.ty(f0['mir']['locals'][i])['t'])['e']).get('w') == 8]
                # byte-slice parameters (keys): every length 0..=40 and a few longer ones, symbolic contents
                lens = [None] if not slice_params else list(range(0, 41)) + [48, 56, 57, 64, 72, 128, 129]
                if len(slice_params) > 1:
                    lens = [0, 1, 5, 16, 17, 32]
                for n in lens:
                    outs = []
                    for (m, f) in ((mb, ib[full]), (mf, jf[full])):
                        engine._INTERPS.clear()
                        I = engine.mk_interp(m, 30_000_000)
                        st = State()
                        over = {}
                        for i in slice_params:
                            I.fresh += 1
                            obj = ('P', 'sl%d' % i, I.fresh)
                            st.mem[obj] = Arr(engine.u8_slice_type(I), [topint(8, False, T.sym('sl%d[%d]' % (i, j), 8)) for j in range(n)])
                            over[i] = Ptr(obj, (), I.usize(0), I.usize(n), None, None, mb.ty(f0['mir']['locals'][i]).get('mut', False))
                        args = engine.default_args(I, st, f, over)
                        status, r = engine.run(I, f['id'], args, st)
                        if status not in ('ok', 'diverge'):
                            return '%s: %s %s' % (pretty(full), status, str(r)[:150])
                        leaves = [T.const(8, 1 if status == 'ok' else 0)]
                        if status == 'ok':
                            _leaf_terms(r, leaves)
                            for a in args:
                                if isinstance(a, Ptr) and a.obj in st.mem:
                                    _leaf_terms(st.mem[a.obj], leaves)
                        outs.append(leaves)
                    at = '' if n is None else ' (slice length %d)' % n
                    if len(outs[0]) != len(outs[1]):
                        return '%s%s: results have different shapes' % (pretty(full), at)
                    for i, (x, y) in enumerate(zip(outs[0], outs[1])):
                        if x is None or y is None or x is not y:
                            return '%s%s: result leaf %d differs: %s' % (pretty(full), at, i, T.first_diff(x, y) if (x is not None and y is not None) else 'no term (data-dependent control flow)')
    except Exception as e:
        return 'analysis error %r' % (e,)
    finally:
        import engine as _e
        _e._INTERPS.clear()
    return None


def rule_F(chk, base_name, feat_name, Fb, Ff):
    n = 0
    for cname in REPO_CRATES:
        cb, cf = Fb.crate(cname), Ff.crate(cname)
        common = sorted(set(cb.fns) & set(cf.fns))
        for path in common:
            fb, ff = cb.fns[path], cf.fns[path]
            if fb.get('impl_trait') == 'core::ops::drop::Drop' and fb.get('name') == 'drop':
                continue
            n += 1
            key = '%s~%s|%s|F' % (base_name, feat_name, pretty(path))
            a, b = norm_fn(cb, fb), norm_fn(cf, ff)
            if a == b:
                chk.ok('F-feature-independent-mir', key, dict(fn=pretty(path), crate=cname) if n % 400 == 1 else None)
            else:
                # the code differs (typically a `#[cfg(feature = "zeroize")]` wipe of a temporary): decide semantically --
                # every monomorphic instance of the function, interpreted on the same symbolic arguments in both builds,
                # must return identical terms and leave identical terms behind every pointer argument
                why = same_function_by_terms(Fb, Ff, path)
                if why is None:
                    chk.ok('F-feature-independent-mir', key, dict(fn=pretty(path), crate=cname, decided_by='terms: the two bodies differ but compute the same results'))
                else:
                    chk.violation('F-feature-independent-mir', key,
                                  '%s (%s) compiles to different code with the optional cargo features %s than without (%s) and the two '
                                  'versions are not shown to compute the same results: %s' % (
                                      pretty(path), fn_loc(ff), Ff.meta['cfg']['features'], first_difference(a, b), why))
        # functions that vanish when a feature is enabled
        for path in sorted(set(cb.fns) - set(cf.fns)):
            chk.violation('F-feature-independent-mir', '%s~%s|%s|F|vanishes' % (base_name, feat_name, pretty(path)),
                          '%s exists only without the optional features' % pretty(path))
    return n


def rule_S(chk, Fa, Fb, name_a, name_b):
    import equiv, engine
    import terms as T
    from values import Ptr, Struct
    from interp import State
    from ops import flatten
    n = 0
    with equiv.TermMode():
        outs = {}
        for (nm, F) in ((name_a, Fa), (name_b, Fb)):
            m = F.mono
            ty_s = [t['ty'] for t in m.cipher_types if pretty(t['ty']) == 'serpent::Serpent']
            if not ty_s:
                chk.fail_closed('S-serpent-unroll', nm, 'serpent::Serpent not rooted in %s' % nm)
                return 0
            for direction in ('enc', 'dec'):
                f = equiv.backend_fn(m, ty_s[0], equiv.ENC if direction == 'enc' else equiv.DEC, direction + 'rypt_block')
                engine._INTERPS.clear()
                I = engine.mk_interp(m, 20_000_000)
                st = State()
                I.entry_state = st
                self_ty = m.ty(f['mir']['locals'][1])['t']
                I.fresh += 1
                sobj = ('P', 'self', I.fresh)
                st.mem[sobj] = I.top(self_ty, 'self')
                inout_ty = m.ty(f['mir']['locals'][2])
                block_ty = [I.types[fd['t']]['t'] for fd in inout_ty['variants'][0]['f'] if I.types[fd['t']]['k'] == 'ptr'][0]
                x = I.top(block_ty, 'x')
                I.entry_state = None
                a1, out1 = equiv.inout_arg(I, st, f, x, 'a')
                status, r = engine.run(I, f['id'], [Ptr(sobj, (), None, None, None, None, False), a1], st)
                if status != 'ok':
                    chk.fail_closed('S-serpent-unroll', '%s|%s' % (nm, direction), '%s %s' % (status, str(r)[:200]))
                    return 0
                outs[(nm, direction)] = [b.term for b in flatten(I, st.mem[out1], block_ty)]
        for direction in ('enc', 'dec'):
            a, b = outs[(name_a, direction)], outs[(name_b, direction)]
            for i, (x, y) in enumerate(zip(a, b)):
                n += 1
                key = '%s~%s|serpent::Serpent|%s|byte%d' % (name_a, name_b, direction, i)
                if x is not None and x is y:
                    chk.ok('S-serpent-unroll', key, dict(direction=direction, byte=i, term_size=T.size(x)) if i == 0 else None)
                else:
                    chk.violation('S-serpent-unroll', key, 'Serpent %srypt_block output byte %d differs between the unrolled and the '
                                  'serpent_no_unroll build: %s' % (direction, i, T.first_diff(x, y)))
    return n


def rule_C(chk, Fa, Fb, name_a, name_b):
    """aes_compact changes no result of the bitsliced AES: for each of Aes128/192/256 and each direction, the output
    of the single-block backend routine on a symbolic block, with the instance `KeyInit::new` builds from a symbolic key,
    is the same bit-level canonical term in the two configurations (engine L3b; S-box pair as a position-wise opaque
    inverse pair after its lemma)."""
    import equiv, engine, c01, c04, bitform
    import terms as T
    from interp import State
    from ops import flatten
    n = 0
    with equiv.TermMode():
        outs = {}
        try:
            setups = {}
            for (nm, F) in ((name_a, Fa), (name_b, Fb)):
                spec = c01.bitlevel_spec('aes::soft')
                summ, inv, lem, verdict = c01.bitlevel_setup(F.mono, spec)
                if summ is None:
                    if verdict is False:
                        chk.violation('C-aes-compact', '%s|lemma' % nm, 'aes (%s): %s' % (nm, lem))
                    else:
                        chk.undecided.append('aes_compact equivalence: bit-level mode not applicable in %s (%s)' % (nm, lem))
                        return None
                    return n
                setups[nm] = (summ, inv)
            # one term universe for both configurations (the lemmas above each used their own)
            equiv.fresh_terms()
            for (nm, F) in ((name_a, Fa), (name_b, Fb)):
                m = F.mono
                summ, inv = setups[nm]
                for (self_ty, trait, single, par) in c04.backend_pairs(m):
                    sname = pretty(m.ty(self_ty)['s'])
                    if not sname.startswith('aes::soft::'):
                        continue
                    cipher_s = c04.wrapped_cipher(m, self_ty)
                    news = c04.soft_new(m, cipher_s) if cipher_s else []
                    if not news:
                        continue
                    I = c04.soft_interp(m, summ, inv, fresh=False)
                    st0 = State()
                    fnew = m.fn(news[0])
                    args = engine.default_args(I, st0, fnew)
                    status, cipher = engine.run(I, fnew['id'], args, st0)
                    if status != 'ok':
                        chk.fail_closed('C-aes-compact', '%s|%s|new' % (nm, sname), '%s %s' % (status, str(cipher)[:200]))
                        continue
                    status, r, _b, sout = c04.soft_call(I, m, self_ty, cipher, single, None, 'c')
                    if status != 'ok':
                        chk.fail_closed('C-aes-compact', '%s|%s|run' % (nm, sname), '%s %s' % (status, str(r)[:200]))
                        continue
                    inout_ty = m.ty(single['mir']['locals'][2])
                    block_ty = [I.types[fd['t']]['t'] for fd in inout_ty['variants'][0]['f'] if I.types[fd['t']]['k'] == 'ptr'][0]
                    outs[(nm, sname)] = [bitform.recanon(b.term) if b.term is not None else None for b in flatten(I, sout, block_ty)]
        finally:
            T.BITCANON = False
            engine._INTERPS.clear()
        for (nm, sname), a in sorted(outs.items()):
            if nm != name_a:
                continue
            b = outs.get((name_b, sname))
            key = '%s~%s|%s' % (name_a, name_b, sname)
            if b is None:
                chk.fail_closed('C-aes-compact', key, '%s has no counterpart in %s' % (sname, name_b))
                continue
            n += 1
            bad = [i for i, (x, y) in enumerate(zip(a, b)) if x is None or x is not y]
            if bad:
                chk.violation('C-aes-compact', key, '%s: output byte %d differs between the aes_compact and the default fixslice build '
                              '(bit-level canonical forms of the two terms differ)' % (sname, bad[0]))
            else:
                chk.ok('C-aes-compact', key, dict(backend=sname, bytes=len(a), configs=[name_a, name_b]))
    return n


def run(chk, facts_by_config):
    chk.trusted += ['rustc: identical MIR => identical function', 'the rewrite rules of analysis/terms.py (rule S)']
    chk.undecided += ['AES: AES-NI / ARMv8 compute the same function as the software implementation',
                      'Kuznyechik: SSE2 vs NEON vs table vs compact back-ends compute the same function']
    names = list(facts_by_config)
    pairs = [(a, a + '-all') for a in names if a + '-all' in facts_by_config]
    for (a, b) in pairs:
        chk.configs.append('%s~%s' % (a, b))
        n = rule_F(chk, a, b, facts_by_config[a], facts_by_config[b])
        chk.floor('F-feature-independent-mir', n, 'F.%s' % a)
    if 'x64' in facts_by_config and 'x64-alt1' in facts_by_config:
        n = rule_S(chk, facts_by_config['x64'], facts_by_config['x64-alt1'], 'x64', 'x64-alt1')
        chk.floor('S-serpent-unroll', n, 'S.x64')
    if 'x64-soft' in facts_by_config and 'x64-alt1' in facts_by_config:
        n = rule_C(chk, facts_by_config['x64-soft'], facts_by_config['x64-alt1'], 'x64-soft', 'x64-alt1')
        if n is not None:
            chk.floor('C-aes-compact', n, 'C.x64-soft')
    # fixslice64 (x86-64) vs fixslice32 (i686), and vs the software arm on AArch64: the bit-level canonical form abstracts
    # from how the bitsliced state is packed into words
    for other in ('x86', 'a64'):
        if 'x64-soft' in facts_by_config and other in facts_by_config:
            n = rule_C(chk, facts_by_config['x64-soft'], facts_by_config[other], 'x64-soft', other)
            if n is not None:
                chk.floor('C-aes-compact', n, 'C.x64-soft~' + other)
