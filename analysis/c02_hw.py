"""C02, rule N -- the AES-NI (and ARMv8) AES types compute FIPS-197, relative to the documented instruction semantics.

The AES instructions are *defined* by their manuals in terms of the FIPS-197 transformations (Intel SDM vol. 2, AESENC:
ShiftRows, SubBytes, MixColumns, XOR round key; AESENCLAST without MixColumns; AESDEC / AESDECLAST with the inverse
transformations; AESIMC = InvMixColumns; AESKEYGENASSIST = SubWord / RotWord / rcon of dwords 1 and 3.  Arm ARM, AESE =
SubBytes(ShiftRows(data ^ key)), AESD the inverse, AESMC / AESIMC the column mixes).  Those definitions are installed as
expansions of the intrinsic operators into bit-level normal form (bitform.ISA), with SubBytes a position-wise opaque byte
function `fips.S` and its inverse `fips.InvS` (an inverse pair by definition); everything else in them is GF(2)-affine and
is expanded exactly.  Then, exactly as rule F does for the software code: the key schedule `KeyInit::new` builds from a
symbolic key (aeskeygenassist / shuffle / byte-shift sequences, the inverse schedule through AESIMC) and the single-block
backend routine on a symbolic block are interpreted, and the normal form of every output byte must equal that of the
FIPS-197 KeyExpansion + Cipher / InvCipher pseudo-code over the same symbols.  The straightforward InvCipher of FIPS-197
5.3 and the code's equivalent inverse cipher (5.3.5: InvMixColumns applied to the round keys) differ only by linear
maps, which the normal form expands -- so the comparison also decides that the inverse key schedule is right.

Trusted: the instruction definitions as transcribed here; that the CPU implements them."""
import equiv, engine, c04, bitform, c02
import terms as T
from facts import pretty
from interp import State, Ptr
from values import Struct
from ops import flatten

SB = c02.Sbox('pw:fips.S', 'pw:fips.InvS', tuple(range(8)), 0, 0)


def _bytes(bits):
    return [tuple(bits[8 * i:8 * i + 8]) for i in range(16)]


def _bits(bs):
    return tuple(x for b in bs for x in b)


def _imm(t):
    k = t[0]
    return int(k.split('#')[1]) & 0xFF if '#' in k else None


def _aesenc(t):
    a, k = _bytes(bitform.bitform(t[2])), _bytes(bitform.bitform(t[3]))
    return _bits(c02.add_round_key(c02.mix_columns(c02.shift_rows([SB.sub(b) for b in a])), k))


def _aesenclast(t):
    a, k = _bytes(bitform.bitform(t[2])), _bytes(bitform.bitform(t[3]))
    return _bits(c02.add_round_key(c02.shift_rows([SB.sub(b) for b in a]), k))


def _aesdec(t):
    a, k = _bytes(bitform.bitform(t[2])), _bytes(bitform.bitform(t[3]))
    return _bits(c02.add_round_key(c02.mix_columns([SB.inv(b) for b in c02.shift_rows(a, True)], c02.IMC), k))


def _aesdeclast(t):
    a, k = _bytes(bitform.bitform(t[2])), _bytes(bitform.bitform(t[3]))
    return _bits(c02.add_round_key([SB.inv(b) for b in c02.shift_rows(a, True)], k))


def _aesimc(t):
    return _bits(c02.mix_columns(_bytes(bitform.bitform(t[2])), c02.IMC))


def _aesmc(t):
    return _bits(c02.mix_columns(_bytes(bitform.bitform(t[2]))))


def _keygenassist(t):
    imm = _imm(t)
    if imm is None:
        return None
    a = _bytes(bitform.bitform(t[2]))
    out = []
    for d in (1, 3):
        sw = [SB.sub(b) for b in a[4 * d:4 * d + 4]]
        rot = sw[1:] + sw[:1]
        rot[0] = c02.bxor(rot[0], c02.bconst(imm))
        out += sw + rot
    return _bits(out)


def _shuffle_epi32(t):
    imm = _imm(t)
    if imm is None:
        return None
    a = _bytes(bitform.bitform(t[2]))
    out = []
    for i in range(4):
        j = (imm >> (2 * i)) & 3
        out += a[4 * j:4 * j + 4]
    return _bits(out)


def _slli_si128(t):
    imm = _imm(t)
    if imm is None:
        return None
    a = _bytes(bitform.bitform(t[2]))
    n = min(imm, 16)
    return _bits([c02.bconst(0)] * n + a[:16 - n])


def _srli_si128(t):
    imm = _imm(t)
    if imm is None:
        return None
    a = _bytes(bitform.bitform(t[2]))
    n = min(imm, 16)
    return _bits(a[n:] + [c02.bconst(0)] * n)


def _xor(t):
    a, b = bitform.bitform(t[2]), bitform.bitform(t[3])
    return tuple(x ^ y for x, y in zip(a, b))


def _aese(t):      # AESE: SubBytes(ShiftRows(data ^ key))
    a, k = _bytes(bitform.bitform(t[2])), _bytes(bitform.bitform(t[3]))
    return _bits(c02.shift_rows([SB.sub(b) for b in c02.add_round_key(a, k)]))


def _aesd(t):      # AESD: InvSubBytes(InvShiftRows(data ^ key))
    a, k = _bytes(bitform.bitform(t[2])), _bytes(bitform.bitform(t[3]))
    return _bits([SB.inv(b) for b in c02.shift_rows(c02.add_round_key(a, k), True)])


def _dup(n):
    def f(t):
        a = bitform.bitform(t[2])
        if len(a) != n:
            return None
        return tuple(a) * (128 // n)
    return f


def _getlane(n):
    def f(t):
        imm = _imm(t)
        a = bitform.bitform(t[2])
        if imm is None or len(a) != 128 or n * (imm + 1) > 128:
            return None
        return tuple(a[n * imm:n * imm + n])
    return f


def _unpack64(hi):
    def f(t):
        a, b = bitform.bitform(t[2]), bitform.bitform(t[3])
        o = 64 if hi else 0
        return tuple(a[o:o + 64]) + tuple(b[o:o + 64])
    return f


def _and(t):
    a, b = bitform.bitform(t[2]), bitform.bitform(t[3])
    out = []
    for x, y in zip(a, b):
        if not x or not y:
            out.append(bitform.ZERO)
        elif x == bitform.ONE:
            out.append(y)
        elif y == bitform.ONE or x == y:
            out.append(x)
        else:
            return None
    return tuple(out)


def _or(t):
    a, b = bitform.bitform(t[2]), bitform.bitform(t[3])
    out = []
    for x, y in zip(a, b):
        if not x:
            out.append(y)
        elif not y or x == y:
            out.append(x)
        elif x == bitform.ONE or y == bitform.ONE:
            out.append(bitform.ONE)
        else:
            return None
    return tuple(out)


def _shuffle_epi8(t):
    a, msk = _bytes(bitform.bitform(t[2])), _bytes(bitform.bitform(t[3]))
    out = []
    for mb in msk:
        if any(x not in (bitform.ZERO, bitform.ONE) for x in mb):
            return None
        v = sum(1 << i for i, x in enumerate(mb) if x == bitform.ONE)
        out.append(c02.bconst(0) if v & 0x80 else a[v & 15])
    return _bits(out)


def _alignr(t):
    imm = _imm(t)
    if imm is None:
        return None
    a, b = _bytes(bitform.bitform(t[2])), _bytes(bitform.bitform(t[3]))
    cat = b + a + [c02.bconst(0)] * 16
    return _bits(cat[min(imm, 32):min(imm, 32) + 16])


def _shuffle_pd(t):
    imm = _imm(t)
    if imm is None:
        return None
    a, b = bitform.bitform(t[2]), bitform.bitform(t[3])
    return tuple(a[64:] if imm & 1 else a[:64]) + tuple(b[64:] if imm & 2 else b[:64])


def _ident(t):
    return bitform.bitform(t[2])


ISA = {
    '_mm_unpacklo_epi64': _unpack64(False), '_mm_unpackhi_epi64': _unpack64(True), '_mm_and_si128': _and, '_mm_or_si128': _or,
    '_mm_shuffle_epi8': _shuffle_epi8, '_mm_alignr_epi8': _alignr, '_mm_shuffle_pd': _shuffle_pd,
    '_mm_castsi128_pd': _ident, '_mm_castpd_si128': _ident, '_mm_castsi128_ps': _ident, '_mm_castps_si128': _ident,
    'vandq_u8': _and, 'vorrq_u8': _or,
    'vdupq_n_u32': _dup(32), 'vdupq_n_u8': _dup(8), 'vgetq_lane_u32': _getlane(32), 'vgetq_lane_u8': _getlane(8),
    '_mm_aesenc_si128': _aesenc, '_mm_aesenclast_si128': _aesenclast, '_mm_aesdec_si128': _aesdec,
    '_mm_aesdeclast_si128': _aesdeclast, '_mm_aesimc_si128': _aesimc, '_mm_aeskeygenassist_si128': _keygenassist,
    '_mm_shuffle_epi32': _shuffle_epi32, '_mm_slli_si128': _slli_si128, '_mm_srli_si128': _srli_si128,
    '_mm_bslli_si128': _slli_si128, '_mm_bsrli_si128': _srli_si128, '_mm_xor_si128': _xor,
    'vaeseq_u8': _aese, 'vaesdq_u8': _aesd, 'vaesmcq_u8': _aesmc, 'vaesimcq_u8': _aesimc, 'veorq_u8': _xor,
}


def install():
    bitform.ISA.update(ISA)
    bitform.PW_INVERSES['pw:fips.S'] = 'pw:fips.InvS'
    bitform.PW_INVERSES['pw:fips.InvS'] = 'pw:fips.S'


def owner_new(m, backend_ty):
    """KeyInit::new of the /repo ADT whose only non-ZST field is the backend type"""
    out = []
    for f in m.fns:
        if f.get('impl_trait') == 'crypto_common::KeyInit' and f.get('name') == 'new' and f['crate'] in c04.REPO_CRATES:
            d = m.ty(f['mir']['locals'][0])
            if d['k'] == 'adt' and len(d.get('variants', [])) == 1:
                fs = [fd for fd in d['variants'][0]['f'] if m.ty(fd['t']).get('size') != 0]
                if len(fs) == 1 and fs[0]['t'] == backend_ty:
                    out.append(f)
    return out


def rule_N(chk, nm, F, prefixes):
    m = F.mono
    n = 0
    undec = 0
    with equiv.TermMode():
        try:
            equiv.fresh_terms()
            for (self_ty, trait, single, par) in c04.backend_pairs(m):
                sname = pretty(m.ty(self_ty)['s'])
                if not any(sname.startswith(p) for p in prefixes):
                    continue
                key = '%s|%s' % (nm, sname)
                news = owner_new(m, self_ty)
                if len(news) != 1:
                    chk.fail_closed('N-fips-197-hw', key + '|owner', 'no unique KeyInit::new of a type holding %s (%d)' % (sname, len(news)))
                    continue
                engine._INTERPS.clear()
                I = engine.mk_interp(m, 60_000_000)
                I.bitcanon = True
                T.BITCANON = True
                I.summaries = None
                install()
                st0 = State()
                fnew = news[0]
                args = engine.default_args(I, st0, fnew)
                status, owner = engine.run(I, fnew['id'], args, st0)
                if status != 'ok' or not isinstance(owner, Struct):
                    chk.fail_closed('N-fips-197-hw', key + '|new', '%s %s' % (status, str(owner)[:200]))
                    continue
                backend = [v for v, fd in zip(owner.f, m.ty(fnew['mir']['locals'][0])['variants'][0]['f']) if fd['t'] == self_ty]
                kt = I.types[fnew['mir']['locals'][1]]['t']
                ksyms = [bitform.bitform(b.term) if b.term is not None else None for b in flatten(I, st0.mem[args[0].obj], kt)]
                enc = single['name'].startswith('encrypt')
                rk = None
                for fn in (single, par):
                    if fn is None:
                        continue
                    fkey = key if fn is single else key + '|par'
                    # call the routine with self = the backend value
                    st = State()
                    I.fresh += 1
                    sobj = ('P', 'self', I.fresh)
                    st.mem[sobj] = backend[0]
                    t = fn['mir']['locals'][2]
                    vals = []
                    in_obj = out_obj = None
                    I.entry_state = st
                    for fd in I.types[t]['variants'][0]['f']:
                        fdd = I.types[fd['t']]
                        if fdd['k'] == 'ptr':
                            I.fresh += 1
                            obj = ('P', 'n.%s' % fd['name'], I.fresh)
                            st.mem[obj] = I.top(fdd['t'], ('x' if fn is single else 'xp') if fd['name'].startswith('in') else 'o')
                            if fd['name'].startswith('in'):
                                in_obj = obj
                            else:
                                out_obj = obj
                            vals.append(Ptr(obj, (), None, None, None, None, fdd['mut']))
                        else:
                            vals.append(I.zst(fd['t']))
                    I.entry_state = None
                    before = st.mem[in_obj]
                    status, r = engine.run(I, fn['id'], [Ptr(sobj, (), None, None, None, None, False), Struct(t, vals)], st)
                    if status != 'ok':
                        chk.fail_closed('N-fips-197-hw', fkey + '|run', '%s %s' % (status, str(r)[:200]))
                        continue
                    block_ty = [I.types[fd['t']]['t'] for fd in I.types[t]['variants'][0]['f'] if I.types[fd['t']]['k'] == 'ptr'][0]
                    xs = [bitform.bitform(b.term) if b.term is not None else None for b in flatten(I, before, block_ty)]
                    code = [bitform.bitform(b.term) if b.term is not None else None for b in flatten(I, st.mem[out_obj], block_ty)]
                    if len(ksyms) not in (16, 24, 32) or len(xs) % 16 or not xs or len(code) != len(xs) or any(k is None or len(k) != 8 for k in ksyms + xs):
                        chk.fail_closed('N-fips-197-hw', fkey + '|shape', 'key / block are not byte arrays of symbols (%d, %d)' % (len(ksyms), len(xs)))
                        continue
                    if rk is None:
                        rk = c02.key_expansion(ksyms, SB)
                    ref = []
                    for l in range(len(xs) // 16):
                        ref += (c02.fips_cipher if enc else c02.fips_inv_cipher)(xs[16 * l:16 * l + 16], rk, SB)
                    if c02.decide(chk, 'N-fips-197-hw', fkey, code, ref, '%s (%s, %d-byte key): %s on the instance KeyInit::new builds differs from the '
                                   'FIPS-197 %s%s under the documented instruction semantics' % (
                                       sname, nm, len(ksyms), fn['name'], 'Cipher' if enc else 'InvCipher',
                                       '' if fn is single else ' applied to each of the %d blocks (byte index / 16 = lane)' % (len(xs) // 16)),
                                   dict(backend=sname, key_bytes=len(ksyms), direction='encrypt' if enc else 'decrypt',
                                        rounds=len(rk) - 1, config=nm, blocks=len(xs) // 16)):
                        n += 1
                    else:
                        undec += 1
        finally:
            T.BITCANON = False
            engine._INTERPS.clear()
            bitform.ISA.clear()
    return None if undec else n


HW = {'x64': ('aes::ni::',), 'x64-aesni-all': ('aes::ni::',), 'a64': ('aes::armv8::',), 'a64-all': ('aes::armv8::',)}


def run(chk, facts_by_config):
    chk.trusted += ['Intel SDM / Arm ARM definitions of the AES instructions as transcribed in analysis/c02_hw.py; that the CPU implements them']
    for nm, F in facts_by_config.items():
        if nm not in HW:
            continue
        if nm not in chk.configs:
            chk.configs.append(nm)
        n = rule_N(chk, nm, F, HW[nm])
        if n is not None:          # None: some instance is undecided (unmodelled operator), recorded as such
            chk.floor('N-fips-197-hw', n, 'N.' + nm)
