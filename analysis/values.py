"""Abstract value domain of the MIR interpreter (engines L2/L3).

Integers: interval x known-bits (x optional Herbrand term).  Aggregates are
structural (tuples of values), pointers are (object, path) locations with an
optional slice length.  All values are immutable.
"""
import terms as T

M = lambda w: (1 << w) - 1


class AInt:
    """unsigned bit-pattern abstraction of an integer / bool / char of width w.
    lo..hi bounds the *unsigned* pattern; kz/ko are known-zero / known-one masks.
    For signed types the same pattern space is used (signed arithmetic goes through
    to_signed helpers and is only precise for constants)."""
    __slots__ = ('w', 'lo', 'hi', 'kz', 'ko', 'signed', 'term', 'cmp')

    def __init__(self, w, lo, hi, kz=0, ko=0, signed=False, term=None, cmp=None):
        m = M(w)
        kz &= m
        ko &= m
        if signed:
            # bounds live in signed space
            smin, smax = -(1 << (w - 1)), (1 << (w - 1)) - 1
            if lo > hi or lo < smin or hi > smax:
                lo, hi = smin, smax
            if lo >= 0:
                kz |= 1 << (w - 1)
                hb = hi.bit_length()
                kz |= m & ~M(hb) if hb < w else 0
                blo, bhi = ko, m & ~kz
                if blo > lo:
                    lo = blo
                if bhi < hi:
                    hi = bhi
                if lo > hi:
                    lo, hi = ko, m & ~kz
            elif hi < 0:
                ko |= 1 << (w - 1)
            else:
                if kz >> (w - 1) & 1:
                    lo = max(lo, 0)
                    hi = min(hi, m & ~kz)
                elif ko >> (w - 1) & 1:
                    hi = min(hi, -1)
            if lo == hi:
                p = lo & m
                kz = m & ~p
                ko = p
        else:
            if lo > hi or lo < 0 or hi > m:
                lo, hi = 0, m
            if lo == hi:
                kz = m & ~lo
                ko = lo
            else:
                hb = hi.bit_length()
                kz |= m & ~M(hb) if hb < w else 0
                blo = ko
                bhi = m & ~kz
                if blo > lo:
                    lo = blo
                if bhi < hi:
                    hi = bhi
                if lo > hi:
                    lo, hi = ko, m & ~kz
                if lo == hi:
                    kz = m & ~lo
                    ko = lo
        self.w = w
        self.lo = lo
        self.hi = hi
        self.kz = kz
        self.ko = ko
        self.signed = signed
        self.term = term
        self.cmp = cmp   # for bools: (op, lhs value, rhs value, lhs place key, rhs place key)

    def urange(self):
        """unsigned bit-pattern interval"""
        if not self.signed or self.lo >= 0:
            return self.lo, self.hi
        m = M(self.w)
        if self.hi < 0:
            return self.lo & m, self.hi & m
        return 0, m

    def nonneg(self):
        return (not self.signed) or self.lo >= 0

    @property
    def const(self):
        """the bit pattern, if the value is a constant"""
        return (self.lo & M(self.w)) if self.lo == self.hi else None

    def is_const(self):
        return self.lo == self.hi

    def sconst(self):
        """numeric (signed for signed types) value if constant"""
        return self.lo if self.lo == self.hi else None

    def with_term(self, t):
        return AInt(self.w, self.lo, self.hi, self.kz, self.ko, self.signed, t, self.cmp)

    def __repr__(self):
        if self.is_const():
            return 'c%d:%s' % (self.w, self.sconst() if self.signed else self.lo)
        if not self.kz and not self.ko and ((not self.signed and self.lo == 0 and self.hi == M(self.w)) or
                                           (self.signed and self.lo == -(1 << (self.w - 1)) and self.hi == (1 << (self.w - 1)) - 1)):
            return 'T%d' % self.w
        s = 'i%d[%d..%d]' % (self.w, self.lo, self.hi)
        if self.kz or self.ko:
            s += '{z=%x,o=%x}' % (self.kz, self.ko)
        return s

    def same(self, o):
        return isinstance(o, AInt) and self.w == o.w and self.lo == o.lo and self.hi == o.hi and self.kz == o.kz \
            and self.ko == o.ko and self.term is o.term


def cint(w, v, signed=False):
    """constant from a bit pattern (or a signed number when signed)"""
    v &= M(w)
    sv = v - (1 << w) if (signed and v >> (w - 1)) else v
    return AInt(w, sv, sv, signed=signed, term=T.const(w, v) if T.ENABLED else None)


def topint(w, signed=False, term=None):
    if signed:
        return AInt(w, -(1 << (w - 1)), (1 << (w - 1)) - 1, signed=True, term=term)
    return AInt(w, 0, M(w), signed=False, term=term)


def abool(lo, hi, term=None, cmp=None):
    return AInt(8, lo, hi, kz=0xFE, term=term, cmp=cmp)


TRUE = None
FALSE = None


def init_consts():
    global TRUE, FALSE
    TRUE = abool(1, 1, T.const(8, 1) if T.ENABLED else None)
    FALSE = abool(0, 0, T.const(8, 0) if T.ENABLED else None)


init_consts()


class Ptr:
    """pointer / reference to a location.  obj: object id; path: tuple of steps
    (int = field/const index, ('i', AInt) = abstract index, ('dc', v) = downcast).
    For slices: `length` (AInt) elements starting at element index `start` of the
    array found at path.  `elem_off` lets a thin element pointer be moved with
    ptr.add(): it is an index into the array at `path` (one-past-the-end allowed).
    view: type id the pointee is viewed as after a pointer cast (or None)."""
    __slots__ = ('obj', 'path', 'start', 'length', 'elem', 'view', 'mut', 'null')

    def __init__(self, obj, path, start=None, length=None, elem=None, view=None, mut=True, null=False):
        self.obj = obj
        self.path = path
        self.start = start      # AInt or None : slice start index
        self.length = length    # AInt or None : slice length (fat pointer metadata)
        self.elem = elem        # AInt or None : element pointer index into array at path
        self.view = view
        self.mut = mut
        self.null = null

    def __repr__(self):
        s = '&%s%s' % (self.obj, ''.join('.%s' % (p,) for p in self.path))
        if self.elem is not None:
            s += '@%r' % self.elem
        if self.length is not None:
            s += '[%r;+%r]' % (self.start, self.length)
        return s

    def same(self, o):
        return isinstance(o, Ptr) and self.obj == o.obj and self.path == o.path and _same(self.start, o.start) \
            and _same(self.length, o.length) and _same(self.elem, o.elem) and self.view == o.view


def _same(a, b):
    if a is None or b is None:
        return a is b
    return a.same(b)


class Struct:
    """struct / tuple / closure / union(single active) value: fields tuple"""
    __slots__ = ('ty', 'f')

    def __init__(self, ty, f):
        self.ty = ty
        self.f = tuple(f)

    def __repr__(self):
        return 'S%s' % (self.f,)

    def same(self, o):
        return isinstance(o, Struct) and len(self.f) == len(o.f) and all(same(a, b) for a, b in zip(self.f, o.f))


class Enum:
    """enum value with known variant"""
    __slots__ = ('ty', 'variant', 'f')

    def __init__(self, ty, variant, f):
        self.ty = ty
        self.variant = variant
        self.f = tuple(f)

    def __repr__(self):
        return 'E%d%s' % (self.variant, self.f)

    def same(self, o):
        return isinstance(o, Enum) and self.variant == o.variant and len(self.f) == len(o.f) and \
            all(same(a, b) for a, b in zip(self.f, o.f))


class EnumAny:
    """enum whose variant is not known: per-variant payload abstraction"""
    __slots__ = ('ty', 'variants')

    def __init__(self, ty, variants):
        self.ty = ty
        self.variants = variants   # dict variant -> tuple of values

    def __repr__(self):
        return 'E?%s' % (sorted(self.variants),)

    def same(self, o):
        return isinstance(o, EnumAny) and set(self.variants) == set(o.variants) and all(
            len(self.variants[k]) == len(o.variants[k]) and all(same(a, b) for a, b in zip(self.variants[k], o.variants[k]))
            for k in self.variants)


class Arr:
    """array with per-element values"""
    __slots__ = ('ty', 'e', 'hull', 'name')

    def __init__(self, ty, e, name=None):
        self.ty = ty
        self.e = tuple(e)
        self.hull = None     # cached join of all elements (for reads at an abstract index)
        self.name = name     # symbolic name of a pristine input array (term engine: sel(name, index))

    def __repr__(self):
        if len(self.e) > 6:
            return 'A[%r, %r, ... x%d]' % (self.e[0], self.e[1], len(self.e))
        return 'A%s' % (list(self.e),)

    def same(self, o):
        return isinstance(o, Arr) and len(self.e) == len(o.e) and all(a is b or same(a, b) for a, b in zip(self.e, o.e))


class ArrSum:
    """array / slice summarised by one element abstraction (n may be abstract)"""
    __slots__ = ('ty', 'elem', 'n')

    def __init__(self, ty, elem, n):
        self.ty = ty
        self.elem = elem
        self.n = n     # AInt

    def __repr__(self):
        return 'A*[%r; %r]' % (self.elem, self.n)

    def same(self, o):
        return isinstance(o, ArrSum) and same(self.elem, o.elem) and self.n.same(o.n)


class Opaque:
    """an unknown value of a non-integer scalar-ish type (SIMD vector, float, raw union...)"""
    __slots__ = ('ty', 'term')

    def __init__(self, ty, term=None):
        self.ty = ty
        self.term = term

    def __repr__(self):
        return 'Opq<%s>' % self.ty

    def same(self, o):
        return isinstance(o, Opaque) and self.ty == o.ty and self.term is o.term


class FnVal:
    """function item / fn pointer value"""
    __slots__ = ('callee',)

    def __init__(self, callee):
        self.callee = callee

    def __repr__(self):
        return 'fn<%s>' % (self.callee.get('path') or self.callee.get('decl'))

    def same(self, o):
        return isinstance(o, FnVal) and self.callee is o.callee


class Uninit:
    __slots__ = ()

    def __repr__(self):
        return 'uninit'

    def same(self, o):
        return isinstance(o, Uninit)


UNINIT = Uninit()
UNIT = Struct(None, ())


def same(a, b):
    if a is b:
        return True
    if a is None or b is None:
        return False
    return a.same(b)


# ------------------------------------------------------------------ join / widen
def join_int(a, b, widen=False):
    if a.same(b):
        return a
    w = a.w
    lo = min(a.lo, b.lo)
    hi = max(a.hi, b.hi)
    if widen:
        if b.lo < a.lo:
            lo = -(1 << (w - 1)) if a.signed else 0
        if b.hi > a.hi:
            hi = (1 << (w - 1)) - 1 if a.signed else M(w)
    kz = a.kz & b.kz
    ko = a.ko & b.ko
    term = a.term if (a.term is b.term) else None
    return AInt(w, lo, hi, kz if not widen else (kz if (b.kz & a.kz) == a.kz else 0),
                ko if not widen else (ko if (b.ko & a.ko) == a.ko else 0), a.signed, term)


class JoinFail(Exception):
    pass


def join(a, b, topfn, widen=False):
    """least upper bound; topfn(ty) builds an unknown value of a type when shapes differ"""
    if a is b:
        return a
    if isinstance(a, Uninit):
        return b if isinstance(b, Uninit) else b   # maybe-uninit: keep the initialised abstraction (reads are checked by rustc)
    if isinstance(b, Uninit):
        return a
    ta, tb = type(a), type(b)
    if ta is AInt and tb is AInt and a.w == b.w:
        return join_int(a, b, widen)
    if ta is Struct and tb is Struct and len(a.f) == len(b.f):
        fs = [join(x, y, topfn, widen) for x, y in zip(a.f, b.f)]
        if all(x is y for x, y in zip(fs, a.f)):
            return a
        return Struct(a.ty, fs)
    if ta is Arr and tb is Arr and len(a.e) == len(b.e):
        es = [x if x is y else join(x, y, topfn, widen) for x, y in zip(a.e, b.e)]
        if all(x is y for x, y in zip(es, a.e)):
            return a
        return Arr(a.ty, es)
    if ta is ArrSum and tb is ArrSum:
        return ArrSum(a.ty, join(a.elem, b.elem, topfn, widen), join_int(a.n, b.n, widen))
    if ta is Arr and tb is ArrSum:
        a, b, ta, tb = b, a, tb, ta
    if ta is ArrSum and tb is Arr:
        e = a.elem
        for x in b.e:
            e = join(e, x, topfn, widen)
        return ArrSum(a.ty, e, join_int(a.n, AInt(a.n.w, len(b.e), len(b.e)), widen))
    if ta is Enum and tb is Enum:
        if a.variant == b.variant and len(a.f) == len(b.f):
            fs = [join(x, y, topfn, widen) for x, y in zip(a.f, b.f)]
            return Enum(a.ty, a.variant, fs)
        return EnumAny(a.ty, {a.variant: a.f, b.variant: b.f})
    if ta is EnumAny or tb is EnumAny:
        va = a.variants if ta is EnumAny else ({a.variant: a.f} if ta is Enum else None)
        vb = b.variants if tb is EnumAny else ({b.variant: b.f} if tb is Enum else None)
        if va is not None and vb is not None:
            out = dict(va)
            for k, f in vb.items():
                if k in out and len(out[k]) == len(f):
                    out[k] = tuple(join(x, y, topfn, widen) for x, y in zip(out[k], f))
                else:
                    out[k] = f
            return EnumAny(a.ty if ta is not AInt else b.ty, out)
    if ta is Ptr and tb is Ptr:
        if a.same(b):
            return a
        if a.obj == b.obj and a.path == b.path and a.view == b.view:
            def j(x, y):
                if x is None or y is None:
                    return None if (x is None and y is None) else topint(64)
                return join_int(x, y, widen)
            return Ptr(a.obj, a.path, j(a.start, b.start), j(a.length, b.length), j(a.elem, b.elem), a.view, a.mut)
        raise JoinFail('pointers to different locations: %r vs %r' % (a, b))
    if ta is Opaque and tb is Opaque:
        return a if a.same(b) else Opaque(a.ty)
    if ta is FnVal and tb is FnVal and a.same(b):
        return a
    if same(a, b):
        return a
    if ta is tb and hasattr(a, 'b') and hasattr(b, 'b') and len(a.b) == len(b.b):
        return ta(a.ty, [join_int(x, y, widen) for x, y in zip(a.b, b.b)])      # SIMD vectors: byte-wise
    ty = getattr(a, 'ty', None) or getattr(b, 'ty', None)
    if ty is not None and topfn is not None:
        return topfn(ty)
    raise JoinFail('cannot join %r and %r' % (a, b))
