"""Export pipeline: /repo working tree  --(rustc_private driver)-->  JSON facts.

Every check starts here.  Facts are a pure function of (content of the /repo
working tree, configuration, driver + roots sources), so they are cached under
/verif/.cache keyed by the sha256 of exactly those inputs: an edited source file
can never be served stale facts, and an unchanged tree is not re-exported for
every property.
"""
import fcntl, glob, hashlib, json, os, shutil, subprocess, sys, time

VERIF = os.path.dirname(os.path.dirname(os.path.abspath(__file__)))
REPO = os.environ.get('VERIF_REPO', '/repo')
CACHE = os.environ.get('VERIF_CACHE', os.path.join(VERIF, '.cache'))
SCRATCH = os.environ.get('VERIF_SCRATCH', '/var/tmp/verif-scratch')
DRIVER = os.path.join(VERIF, 'driver', 'target', 'debug', 'verif-driver')

ALLF = ['zeroize', 'hazmat', 'bcrypt']
CONFIGS = {
    # name: target, features, cfg flags, extra codegen flags
    'x64':            dict(target=None, features=[], cfg=[]),
    'x64-all':        dict(target=None, features=ALLF, cfg=[]),
    'x64-soft-all':   dict(target=None, features=ALLF, cfg=['aes_force_soft']),
    'x64-soft':       dict(target=None, features=[], cfg=['aes_force_soft']),
    'x64-alt1-all':   dict(target=None, features=ALLF,
                           cfg=['aes_force_soft', 'aes_compact', 'kuznyechik_backend="soft"', 'serpent_no_unroll']),
    'x64-alt2-all':   dict(target=None, features=ALLF, cfg=['aes_compact', 'kuznyechik_backend="compact_soft"']),
    'x64-alt1':       dict(target=None, features=[],
                           cfg=['aes_force_soft', 'aes_compact', 'kuznyechik_backend="soft"', 'serpent_no_unroll']),
    'x64-alt2':       dict(target=None, features=[], cfg=['aes_compact', 'kuznyechik_backend="compact_soft"']),
    'x64-aesni-all':  dict(target=None, features=ALLF, cfg=[], cflags=['-Ctarget-feature=+aes,+ssse3']),
    'x64-soft-aesni-all': dict(target=None, features=ALLF, cfg=['aes_force_soft'], cflags=['-Ctarget-feature=+aes,+ssse3']),
    # threefish without its `cipher` feature (inherent API only) but with zeroize
    'x64-tfnc-z':     dict(target=None, features=['zeroize'], cfg=[], no_default=True),
    'a64':            dict(target='aarch64-unknown-linux-gnu', features=[], cfg=[]),
    'a64-all':        dict(target='aarch64-unknown-linux-gnu', features=ALLF, cfg=[]),
    'a64-soft-all':   dict(target='aarch64-unknown-linux-gnu', features=ALLF, cfg=['aes_force_soft']),
    'x86':            dict(target='i686-unknown-linux-gnu', features=[], cfg=[]),
    'x86-all':        dict(target='i686-unknown-linux-gnu', features=ALLF, cfg=[]),
    'x86-soft-all':   dict(target='i686-unknown-linux-gnu', features=ALLF, cfg=['aes_force_soft']),
    'x86-alt1-all':   dict(target='i686-unknown-linux-gnu', features=ALLF,
                           cfg=['aes_force_soft', 'aes_compact', 'kuznyechik_backend="soft"', 'serpent_no_unroll']),
}
QUICK = ['x64', 'x64-all', 'x64-soft-all']
THOROUGH = QUICK + ['x64-soft', 'x64-alt1-all', 'x64-alt2-all', 'x64-alt1', 'x64-alt2', 'x64-aesni-all',
                    'a64', 'a64-all', 'a64-soft-all', 'x86', 'x86-all', 'x86-soft-all', 'x86-alt1-all']


def _sha_files(paths, h):
    for p in sorted(paths):
        h.update(p.encode())
        h.update(b'\0')
        try:
            with open(p, 'rb') as f:
                h.update(f.read())
        except OSError:
            h.update(b'<unreadable>')
        h.update(b'\0')


_repo_hash_memo = {}


def repo_hash():
    """sha256 over every file of the /repo working tree (except target/ and .git/)."""
    if REPO in _repo_hash_memo:
        return _repo_hash_memo[REPO]
    files = []
    for root, dirs, fs in os.walk(REPO):
        dirs[:] = [d for d in dirs if not (d in ('target', '.git') and root == REPO) and d != 'target']
        for f in fs:
            files.append(os.path.join(root, f))
    h = hashlib.sha256()
    _sha_files(files, h)
    _repo_hash_memo[REPO] = h.hexdigest()
    return _repo_hash_memo[REPO]


def tool_hash():
    h = hashlib.sha256()
    fs = glob.glob(os.path.join(VERIF, 'driver', 'src', '*.rs')) + [os.path.join(VERIF, 'driver', 'Cargo.toml')]
    fs += [os.path.join(VERIF, 'roots', 'src', f) for f in ('lib.rs', 'extras.rs', 'extra_types.rs', 'canary.rs')]
    fs += [os.path.join(VERIF, 'roots', 'Cargo.toml'), os.path.join(VERIF, 'analysis', 'gen_roots.py')]
    _sha_files(fs, h)
    return h.hexdigest()


def sysroot():
    return subprocess.check_output(['rustc', '+nightly', '--print', 'sysroot'], text=True).strip()


def build_driver():
    env = dict(os.environ, CARGO_NET_OFFLINE='true')
    r = subprocess.run(['cargo', 'build', '--offline'], cwd=os.path.join(VERIF, 'driver'), env=env,
                       stdout=subprocess.PIPE, stderr=subprocess.STDOUT, text=True)
    if r.returncode != 0:
        sys.stderr.write(r.stdout)
        raise SystemExit('driver build failed')
    return DRIVER


def cache_dir(config):
    key = hashlib.sha256((repo_hash() + tool_hash() + config + json.dumps(CONFIGS[config], sort_keys=True)).encode()).hexdigest()[:20]
    return os.path.join(CACHE, '%s-%s' % (config, key))


class ExportError(Exception):
    pass


def _prune_stale(config, keep, keep_n=4):
    """keep the `keep_n` most recently used cache entries of this configuration"""
    ents = []
    for d in glob.glob(os.path.join(CACHE, config + '-*')):
        base = os.path.basename(d)
        if base.rsplit('-', 1)[0] != config or d.endswith('.lock'):
            continue
        if os.path.abspath(d) == os.path.abspath(keep):
            continue
        try:
            ents.append((os.path.getmtime(os.path.join(d, 'OK')), d))
        except OSError:
            shutil.rmtree(d, ignore_errors=True)
    ents.sort(reverse=True)
    for _t, d in ents[keep_n - 1:]:
        shutil.rmtree(d, ignore_errors=True)


def export(config, verbose=True):
    """Return the directory holding the facts of `config` for the current /repo tree."""
    cfg = CONFIGS[config]
    out = cache_dir(config)
    ok = os.path.join(out, 'OK')
    if os.path.exists(ok):
        try:
            os.utime(ok)
        except OSError:
            pass
        return out
    os.makedirs(CACHE, exist_ok=True)
    lock = open(os.path.join(CACHE, config + '.lock'), 'w')
    fcntl.flock(lock, fcntl.LOCK_EX)
    try:
        if os.path.exists(ok):
            return out
        if not os.path.exists(DRIVER):
            build_driver()
        t0 = time.time()
        scratch = os.path.join(SCRATCH, '%s-%d' % (config, os.getpid()))
        shutil.rmtree(scratch, ignore_errors=True)
        os.makedirs(os.path.join(scratch, 'facts'))
        try:
            roots = os.path.join(scratch, 'roots')
            shutil.copytree(os.path.join(VERIF, 'roots'), roots, ignore=shutil.ignore_patterns('target'))
            ct = open(os.path.join(roots, 'Cargo.toml')).read().replace('"/repo/', '"%s/' % REPO)
            open(os.path.join(roots, 'Cargo.toml'), 'w').write(ct)
            shutil.copy(os.path.join(REPO, 'Cargo.lock'), os.path.join(roots, 'Cargo.lock'))
            open(os.path.join(roots, 'src', 'generated.rs'), 'w').write('')
            rf = ['-Zmir-opt-level=0', '-Zalways-encode-mir', '-Awarnings'] + cfg.get('cflags', [])
            for c in cfg['cfg']:
                rf += ['--cfg', c]
            env = dict(os.environ)
            env.update(
                LD_LIBRARY_PATH=os.path.join(sysroot(), 'lib'),
                CARGO_ENCODED_RUSTFLAGS='\x1f'.join(rf),
                RUSTC_WRAPPER=DRIVER,
                VERIF_OUT=os.path.join(scratch, 'facts'),
                VERIF_REPO=REPO,
                VERIF_ROOTS=roots,
                CARGO_TARGET_DIR=os.path.join(scratch, 'target'),
                CARGO_NET_OFFLINE='true',
            )
            env.pop('RUSTFLAGS', None)
            cmd = ['cargo', '+nightly', 'check', '--offline', '--lib']
            if cfg['features']:
                cmd += ['--features', ','.join(cfg['features'])]
            if cfg.get('no_default'):
                cmd += ['--no-default-features']
            if cfg['target']:
                cmd += ['--target', cfg['target'], '-Zbuild-std=core']

            def stage(n):
                r = subprocess.run(cmd, cwd=roots, env=env, stdout=subprocess.PIPE, stderr=subprocess.STDOUT, text=True)
                if r.returncode != 0:
                    raise ExportError('export of config %s failed in stage %d (does /repo still compile?):\n%s'
                                      % (config, n, r.stdout[-6000:]))

            stage(1)
            sys.path.insert(0, os.path.join(VERIF, 'analysis'))
            import gen_roots
            code, rts, types = gen_roots.generate(os.path.join(scratch, 'facts'))
            open(os.path.join(roots, 'src', 'generated.rs'), 'w').write(code)
            json.dump({'roots': rts,
                       'types': [dict(crate=c, pub_path=p, ty=s, traits=t, kind=k) for (c, p, s, t, k) in types]},
                      open(os.path.join(scratch, 'facts', 'roots.json'), 'w'))
            stage(2)
            mono = os.path.join(scratch, 'facts', 'mono-verif_roots.json')
            if not os.path.exists(mono) or os.path.getsize(mono) < 100000:
                raise ExportError('driver produced no whole-program export for config %s' % config)
            meta = dict(config=config, cfg=cfg, repo_hash=repo_hash(), tool_hash=tool_hash(), wall_s=time.time() - t0,
                        repo=REPO)
            json.dump(meta, open(os.path.join(scratch, 'facts', 'meta.json'), 'w'))
            shutil.rmtree(out, ignore_errors=True)
            shutil.move(os.path.join(scratch, 'facts'), out)
            open(ok, 'w').write('ok')
            _prune_stale(config, out)
            if verbose:
                sys.stderr.write('[export] %s in %.1fs -> %s\n' % (config, time.time() - t0, out))
        finally:
            shutil.rmtree(scratch, ignore_errors=True)
        return out
    finally:
        fcntl.flock(lock, fcntl.LOCK_UN)
        lock.close()


def export_many(configs, jobs=4):
    """Export several configurations, a few at a time (each cargo run is itself parallel)."""
    from concurrent.futures import ThreadPoolExecutor
    todo = [c for c in configs if not os.path.exists(os.path.join(cache_dir(c), 'OK'))]
    res = {}
    if todo:
        if not os.path.exists(DRIVER):
            build_driver()
        with ThreadPoolExecutor(max_workers=jobs) as ex:
            futs = {c: ex.submit(export, c) for c in todo}
            for c, f in futs.items():
                res[c] = f.result()
    for c in configs:
        res.setdefault(c, cache_dir(c))
    return res


if __name__ == '__main__':
    for c in sys.argv[1:]:
        print(export(c))
