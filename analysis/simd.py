"""128-bit SIMD values as 16 abstract bytes, and models of the SSE2 / AES-NI / NEON intrinsics the repository uses.

Value intrinsics are pure functions (lane-wise where the analysis needs lane facts: the Kuznyechik table indices
are `(lane_index << 12) | (byte << 4)`); load/store intrinsics are memory accesses whose pointer is bounds- and
(for the aligned forms) alignment-checked as obligations.
"""
import re
from values import *
import terms as T
from ops import binop, flatten, unflatten, ptr_addr


class Vec:
    """a 128-bit vector: 16 abstract bytes (little endian lane order)"""
    __slots__ = ('ty', 'b', 'term')

    def __init__(self, ty, b, term=None):
        self.ty = ty
        self.b = tuple(b)
        self.term = term

    def same(self, o):
        return isinstance(o, Vec) and all(x.same(y) for x, y in zip(self.b, o.b)) and self.term is o.term

    def __repr__(self):
        if all(x.const is not None for x in self.b):
            return 'V<%s>' % bytes(x.const for x in self.b).hex()
        return 'V<?>'


TOPB = topint(8)


def install(I):
    from interp import Unsupported, RawPtr, Loc, is_simd_type
    import values as V

    def vec_len(ty):
        if ty is not None and I.types[ty].get('size') in (8, 16):
            return I.types[ty]['size']
        return 16

    def topvec(ty, term=None):
        return Vec(ty, [TOPB] * vec_len(ty), term)

    def asvec(v, ty=None):
        if isinstance(v, Vec):
            return v
        if isinstance(v, Opaque):
            return topvec(v.ty if v.ty is not None else ty, v.term)
        if isinstance(v, Struct):
            # __m128i is `struct __m128i([i64; 2])`: flatten
            bs = flatten(I, v, v.ty) if v.ty is not None else None
            if bs is not None and len(bs) == 16:
                return Vec(v.ty, bs)
        if isinstance(v, Arr) and v.ty is not None:
            bs = flatten(I, v, v.ty)
            if bs is not None and len(bs) == 16:
                return Vec(ty, bs)
        if isinstance(v, AInt) and v.w == 128:
            bs = flatten_int(v)
            return Vec(ty, bs)
        return topvec(ty)
    I.asvec = asvec

    def flatten_int(v):
        out = []
        for i in range(v.w // 8):
            if v.const is not None:
                out.append(cint(8, (v.const >> (8 * i)) & 0xFF))
            else:
                out.append(AInt(8, 0, 255, (v.kz >> (8 * i)) & 0xFF, (v.ko >> (8 * i)) & 0xFF))
        return out

    def lanes16(v):
        out = []
        for i in range(len(v.b) // 2):
            lo, hi = v.b[2 * i], v.b[2 * i + 1]
            if lo.const is not None and hi.const is not None:
                out.append(cint(16, lo.const | (hi.const << 8)))
            else:
                out.append(AInt(16, 0, 0xFFFF, lo.kz | (hi.kz << 8), lo.ko | (hi.ko << 8)))
        return out

    def from_lanes16(ty, ls):
        b = []
        for l in ls:
            if l.const is not None:
                b += [cint(8, l.const & 0xFF), cint(8, l.const >> 8)]
            else:
                b += [AInt(8, 0, 255, l.kz & 0xFF, l.ko & 0xFF), AInt(8, 0, 255, (l.kz >> 8) & 0xFF, (l.ko >> 8) & 0xFF)]
        return Vec(ty, b)

    def vterm(name, args, w=128):
        if not T.ENABLED:
            return None
        ts = []

        def add(a):
            if isinstance(a, (Struct, Arr)):          # uint8x16x4_t and friends: the terms of the member vectors
                for x in (a.f if isinstance(a, Struct) else a.e):
                    if not add(x):
                        return False
                return True
            t = getattr(a, 'term', None)
            if t is None and isinstance(a, AInt) and a.const is not None:
                t = T.const(a.w, a.const)
            if t is None and isinstance(a, Vec) and all(isinstance(x, AInt) and x.const is not None for x in a.b):
                t = T.const(8 * len(a.b), sum(x.const << (8 * j) for j, x in enumerate(a.b)))
            if t is None:
                return False
            ts.append(t)
            return True
        for a in args:
            if not add(a):
                return None
        return T.op(name, w, *ts)

    # ---------------------------------------------------------------- memory
    def locate(st, p, n):
        """resolve a pointer for an n-byte access: returns ('raw', aid, byte_off_AInt_or_int, limit) or
        ('arr', loc_of_array, elem_index AInt, elem_size, count, elem_ty) or ('obj', loc, size)"""
        if isinstance(p, RawPtr):
            raw, _ = I.alloc_bytes(p.aid)
            if p.elem is not None:
                eu = p.eunit or (I.types[p.view].get('size') if p.view is not None else n)
                off, _ = binop(I, 'Mul', p.elem, I.usize(eu), I.ptr_bits, False)
                off, _ = binop(I, 'Add', off, I.usize(p.off), I.ptr_bits, False)
            elif p.length is not None:
                es = 1
                if p.view is not None and 'e' in I.types[p.view]:
                    es = I.types[I.types[p.view]['e']].get('size') or 1
                off, _ = binop(I, 'Mul', p.start, I.usize(es), I.ptr_bits, False)
                off, _ = binop(I, 'Add', off, I.usize(p.off), I.ptr_bits, False)
            else:
                off = I.usize(p.off)
            return ('raw', p.aid, off, len(raw))
        if not isinstance(p, Ptr) or p.null or p.obj[0] in ('null', 'addr'):
            raise Unsupported('vector memory access through %r' % (p,))
        if p.elem is not None or p.length is not None:
            path = p.path
            v = I.read(st, Loc(p.obj, path, None))
            for _ in range(6):
                if isinstance(v, Struct):
                    nz = [i for i, x in enumerate(v.f) if not (isinstance(x, Struct) and not x.f)]
                    if len(nz) == 1:
                        path = path + (nz[0],)
                        v = v.f[nz[0]]
                        continue
                break
            if isinstance(v, (Arr, ArrSum)) and v.ty is not None and I.types[v.ty]['k'] in ('array', 'slice'):
                et = I.types[v.ty]['e']
                es = I.types[et].get('size')
                cnt = len(v.e) if isinstance(v, Arr) else v.n.lo
                idx = p.elem if p.elem is not None else p.start
                return ('arr', Loc(p.obj, path, v.ty), idx, es, cnt, et)
            raise Unsupported('vector access: pointer base is not an array (%r)' % (v,))
        v = I.read(st, Loc(p.obj, p.path, None))
        ty = getattr(v, 'ty', None)
        sz = I.types[ty].get('size') if ty is not None else (v.w // 8 if isinstance(v, AInt) else None)
        return ('obj', Loc(p.obj, p.path, ty), sz, v)

    def vload(frame, st, p, rt, what, aligned):
        n = 16
        kind = locate(st, p, n)
        val = None
        if kind[0] == 'raw':
            _, aid, off, limit = kind
            ok = off.hi + n <= limit
            why = 'byte offset %r + %d vs allocation of %d bytes' % (off, n, limit)
            if ok and off.const is not None:
                raw, ptrs = I.alloc_bytes(aid)
                val = Vec(rt, [cint(8, x) for x in raw[off.const:off.const + n]])
            elif ok and T.ENABLED and off.term is not None:
                # a table lookup at a data-dependent offset: an uninterpreted function of the offset
                I.obligation(frame, 'simd-load-bounds', what, 0, False, '')
                return Vec(rt, [TOPB] * 16, T.op('vtbl:' + I.alloc_name(aid), 128, off.term))
            if aligned:
                al, _ = I.alloc(aid)
                a_ok = (al.get('align', 1) % n == 0) and (off.kz & (n - 1)) == (n - 1)
                I.obligation(frame, 'simd-aligned-access', what, 0, not a_ok,
                             'allocation align %s, byte offset %r' % (al.get('align'), off))
        elif kind[0] == 'arr':
            _, aloc, idx, es, cnt, et = kind
            k = max(1, n // es) if es else 1
            ok = es is not None and (es >= n and idx.hi < cnt or es < n and n % es == 0 and idx.hi + k <= cnt)
            why = 'element index %r (+%d of %d bytes) vs %d elements' % (idx, k, es or -1, cnt)
            if ok and idx.const is not None:
                arr = I.read(st, aloc)
                if isinstance(arr, Arr):
                    bs = []
                    for j in range(k):
                        e = arr.e[idx.const + j]
                        if isinstance(e, Vec):
                            bs = list(e.b)
                            break
                        fb = flatten(I, e, et)
                        if fb is None:
                            bs = None
                            break
                        bs += fb
                    if bs is not None and len(bs) >= n:
                        val = Vec(rt, bs[:n])
            if aligned:
                a_ok = False
                root = st.mem.get(aloc.obj)
                rty = getattr(root, 'ty', None)
                if rty is not None and (I.types[rty].get('align') or 1) % n == 0 and not aloc.path and es and es % n == 0:
                    a_ok = True
                I.obligation(frame, 'simd-aligned-access', what, 0, not a_ok,
                             'aligned access to %r whose alignment is not known' % (p,))
        else:
            _, loc, sz, v = kind
            ok = sz is not None and sz >= n
            why = 'object of %s bytes' % sz
            if ok:
                if isinstance(v, Vec):
                    val = v
                elif loc.ty is not None:
                    fb = flatten(I, v, loc.ty)
                    if fb is not None and len(fb) >= n:
                        val = Vec(rt, fb[:n])
            if aligned:
                a_ok = loc.ty is not None and (I.types[loc.ty].get('align') or 1) % n == 0
                I.obligation(frame, 'simd-aligned-access', what, 0, not a_ok, 'aligned access to a %s' % (loc.ty,))
        I.obligation(frame, 'simd-load-bounds', what, 0, not ok, why)
        if val is None:
            val = topvec(rt)
        if T.ENABLED:
            val = Vec(rt, val.b, vterm_load(val))
        return val

    def vterm_load(v):
        ts = [x.term for x in v.b]
        if any(t is None for t in ts):
            return None
        return T.op('cat', 128, *ts)

    def vstore(frame, st, p, v, what, aligned):
        n = 16
        v = asvec(v)
        if T.ENABLED and v.term is not None:
            v = Vec(v.ty, [AInt(8, x.lo, x.hi, x.kz, x.ko, term=T.slice_(v.term, 8 * j, 8)) for j, x in enumerate(v.b)], v.term)
        kind = locate(st, p, n)
        if kind[0] == 'raw':
            I.obligation(frame, 'simd-store-bounds', what, 0, True, 'store into constant memory')
            return
        if kind[0] == 'arr':
            _, aloc, idx, es, cnt, et = kind
            k = max(1, n // es) if es else 1
            ok = es is not None and (es >= n and idx.hi < cnt or es < n and n % es == 0 and idx.hi + k <= cnt)
            I.obligation(frame, 'simd-store-bounds', what, 0, not ok,
                         'element index %r (+%d of %s bytes) vs %d elements' % (idx, k, es, cnt))
            if not ok:
                return
            arr = I.read(st, aloc)
            if isinstance(arr, Arr) and idx.const is not None:
                e = list(arr.e)
                if es >= n:
                    old = e[idx.const]
                    if isinstance(old, Vec) or (es == n and is_simd_type(I.types[et])):
                        e[idx.const] = Vec(et, v.b, v.term)
                    else:
                        nv = unflatten(I, list(v.b) + ([TOPB] * (es - n)), et) if es == n else None
                        e[idx.const] = nv if nv is not None else I.top(et)
                else:
                    for j in range(k):
                        nv = unflatten(I, list(v.b[j * es:(j + 1) * es]), et)
                        e[idx.const + j] = nv if nv is not None else I.top(et)
                I.write(st, aloc, Arr(arr.ty, e))
            elif isinstance(arr, Arr):
                e = list(arr.e)
                for j in range(idx.lo, min(idx.hi + k, len(e))):
                    e[j] = join(e[j], I.top(et), I.top)
                I.write(st, aloc, Arr(arr.ty, e))
            if aligned:
                I.obligation(frame, 'simd-aligned-access', what, 0, True, 'aligned store to %r' % (p,))
            return
        _, loc, sz, old = kind
        ok = sz is not None and sz >= n
        I.obligation(frame, 'simd-store-bounds', what, 0, not ok, 'object of %s bytes' % sz)
        if ok:
            if isinstance(old, Vec) or loc.ty is None:
                I.write(st, Loc(loc.obj, loc.path, None), Vec(getattr(old, 'ty', None), v.b, v.term))
            else:
                nv = unflatten(I, list(v.b), loc.ty) if sz == n else None
                I.write(st, Loc(loc.obj, loc.path, None), nv if nv is not None else I.top(loc.ty))

    LOADS = re.compile(r'^(_mm_loadu?_si128|_mm_lddqu_si128|vld1q_u8|vld1q_u32|vld1q_u64|vld1q_u16)$')
    STORES = re.compile(r'^(_mm_storeu?_si128|vst1q_u8|vst1q_u32|vst1q_u64|vst1q_u16)$')

    def bytewise(op):
        def f(a, b):
            out = []
            for x, y in zip(a.b, b.b):
                r, _ = binop(I, op, x, y, 8, False)
                out.append(r)
            return out
        return f

    def cpu_intrinsic(frame, st, args, callee, name):
        rt = I.cur_dest_ty
        short = name.rsplit('::', 1)[-1]
        gargs = callee.get('gargs') or []
        imm = None
        for g in gargs:
            if re.fullmatch(r'-?\d+', g.strip()):
                imm = int(g)
        if LOADS.match(short):
            return vload(frame, st, args[0], rt, short, short == '_mm_load_si128')
        if STORES.match(short):
            vstore(frame, st, args[0], args[1], short, short == '_mm_store_si128')
            return UNIT
        vt = lambda w=128: vterm(short + ('#%d' % imm if imm is not None else ''), args, w)
        if short in ('_mm_setzero_si128',):
            return Vec(rt, [cint(8, 0)] * 16, vt())
        if short == '_mm_set_epi64x':
            hi, lo = args
            return Vec(rt, flatten_int(lo) + flatten_int(hi), vt())
        if short == '_mm_set_epi8':
            return Vec(rt, list(reversed(args)), vt())
        if short in ('_mm_set1_epi8', 'vdupq_n_u8'):
            return Vec(rt, [args[0]] * 16, vt())
        if short in ('_mm_xor_si128', 'veorq_u8', '_mm_and_si128', 'vandq_u8', '_mm_or_si128', 'vorrq_u8'):
            op = 'BitXor' if 'xor' in short or 'eor' in short else ('BitAnd' if 'and' in short else 'BitOr')
            a, b = asvec(args[0], rt), asvec(args[1], rt)
            return Vec(rt, bytewise(op)(a, b), vt())
        if short == '_mm_unpacklo_epi8' or short == '_mm_unpackhi_epi8':
            a, b = asvec(args[0], rt), asvec(args[1], rt)
            base = 0 if 'lo' in short else 8
            out = []
            for i in range(8):
                out += [a.b[base + i], b.b[base + i]]
            return Vec(rt, out, vt())
        if short in ('_mm_slli_epi16', '_mm_srli_epi16') and imm is not None:
            a = asvec(args[0], rt)
            ls = []
            for l in lanes16(a):
                r, _ = binop(I, 'Shl' if 'slli' in short else 'Shr', l, cint(32, imm), 16, False)
                ls.append(r)
            return Vec(rt, from_lanes16(rt, ls).b, vt())
        if short in ('_mm_extract_epi16',) and imm is not None:
            a = asvec(args[0], None)
            l = lanes16(a)[imm & 7]
            return AInt(32, l.lo, l.hi, l.kz | 0xFFFF0000, l.ko, True, vt(32))
        if short in ('vcreate_u8', 'vcreate_u16', 'vcreate_u32', 'vcreate_u64') and isinstance(args[0], AInt):
            return Vec(rt, flatten_int(args[0]), vt())
        if short.startswith('vcombine_'):
            a, b = asvec(args[0], None), asvec(args[1], None)
            return Vec(rt, list(a.b)[:8] + list(b.b)[:8], vt())
        if short in ('vzip1q_u8', 'vzip2q_u8'):
            a, b = asvec(args[0], rt), asvec(args[1], rt)
            base = 0 if '1' in short[:5] else 8
            out = []
            for i in range(8):
                out += [a.b[base + i], b.b[base + i]]
            return Vec(rt, out, vt())
        if short.startswith('vreinterpretq_') or short.startswith('vreinterpret_'):
            a = asvec(args[0], rt)
            return Vec(rt, a.b, a.term)
        if short in ('vshlq_n_u16', 'vshrq_n_u16') and imm is not None:
            a = asvec(args[0], rt)
            ls = []
            for l in lanes16(a):
                r, _ = binop(I, 'Shl' if 'shl' in short else 'Shr', l, cint(32, imm), 16, False)
                ls.append(r)
            return Vec(rt, from_lanes16(rt, ls).b, vt())
        if short == 'vgetq_lane_u16' and imm is not None:
            a = asvec(args[0], None)
            l = lanes16(a)[imm & 7]
            return AInt(16, l.lo, l.hi, l.kz, l.ko, False, vt(16))
        if short == 'vgetq_lane_u8' and imm is not None:
            a = asvec(args[0], None)
            x = a.b[imm & 15]
            return AInt(8, x.lo, x.hi, x.kz, x.ko, False, vt(8))
        if short.startswith('_mm_cvtsi128_si'):
            w = 64 if '64' in short else 32
            return topint(w, True, vt(w))
        if short.startswith('_mm_movemask'):
            return AInt(32, 0, 0xFFFF, signed=True)
        if short in ('_xgetbv',):
            return topint(64)
        ii = I.int_info(rt) if rt is not None else None
        if ii:
            return topint(ii[0], ii[1], vt(ii[0]))
        d = I.types[rt] if rt is not None else None
        if d is not None and d.get('size') == 0:
            return I.zst(rt)
        from interp import is_simd_type
        if d is not None and d.get('size') in (8, 16) and is_simd_type(d):
            return topvec(rt, vt())
        if d is not None and d['k'] in ('adt', 'tuple', 'array'):
            return I.top(rt)
        return Opaque(rt, vt())
    I.cpu_intrinsic = cpu_intrinsic
