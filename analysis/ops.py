"""Transfer functions of MIR operators on the abstract integer domain."""
from values import *
import terms as T


def _tz_known(a):
    """number of trailing bits that are known"""
    k = a.kz | a.ko
    n = 0
    while n < a.w and (k >> n) & 1:
        n += 1
    return n


def _bitlen_hi(*vals):
    return max(v.hi for v in vals).bit_length()


def to_signed(v, w):
    return v - (1 << w) if v >> (w - 1) else v


def binop(I, op, a, b, w, signed):
    """returns (result, overflow-flag) ; overflow flag is an abstract bool"""
    m = M(w)
    base = op.replace('WithOverflow', '').replace('Unchecked', '')
    term = None
    if T.ENABLED and a.term is not None and b.term is not None:
        tname = base
        if (signed or a.signed) and base in ('Shr', 'Div', 'Rem', 'Lt', 'Le', 'Gt', 'Ge'):
            tname = 'S' + base      # arithmetic shift / signed division / signed order are different functions
        term = T.op(tname, w, a.term, b.term)
    if base in ('Eq', 'Ne', 'Lt', 'Le', 'Gt', 'Ge'):
        if term is not None and term[0] != 'c' and not signed and not a.signed and not b.signed and w >= 32:
            r = _cmp_relational(base, a, b, w)
            if r is not None:
                return r, FALSE
        return _cmp(base, a, b, signed, term), FALSE
    if base == 'Cmp':
        raise NotImplementedError
    ca, cb = a.const, b.const
    if ca is not None and cb is not None:
        return _const_binop(base, ca, cb, w, signed, a, b, term)
    if signed:
        return _signed_binop(base, a, b, w, term)
    if term is not None and term[0] == 'c' and base == 'Sub' and not a.signed and not b.signed and w >= 32:
        # the operands differ by a constant (linear normal form): the wrapped difference is that constant, and it
        # overflows exactly when a < b
        lt = _cmp_relational('Lt', a, b, w)
        if lt is not None:
            return cint(w, term[2]), lt
    if b.signed and b.lo < 0:
        b = topint(b.w)
    if base == 'Add':
        lo, hi = a.lo + b.lo, a.hi + b.hi
        # carry-free addition: disjoint possible-one bits
        pa, pb = m & ~a.kz, m & ~b.kz
        if pa & pb == 0:
            return AInt(w, lo, min(hi, m), a.kz & b.kz, a.ko | b.ko, signed, term), FALSE
        ovf = abool(1 if lo > m else 0, 1 if hi > m else 0)
        k = min(_tz_known(a), _tz_known(b))
        lowmask = M(k)
        lowval = ((a.ko & lowmask) + (b.ko & lowmask)) & lowmask
        if hi <= m:
            return AInt(w, lo, hi, lowmask & ~lowval, lowval, signed, term), ovf
        if lo > m:
            return AInt(w, lo - m - 1, hi - m - 1, lowmask & ~lowval, lowval, signed, term), ovf
        return AInt(w, 0, m, lowmask & ~lowval, lowval, signed, term), ovf
    if base == 'Sub':
        lo, hi = a.lo - b.hi, a.hi - b.lo
        ovf = abool(1 if hi < 0 else 0, 1 if lo < 0 else 0)
        k = min(_tz_known(a), _tz_known(b))
        lowmask = M(k)
        lowval = ((a.ko & lowmask) - (b.ko & lowmask)) & lowmask
        if lo >= 0:
            return AInt(w, lo, hi, lowmask & ~lowval, lowval, signed, term), ovf
        if hi < 0:
            return AInt(w, lo + m + 1, hi + m + 1, lowmask & ~lowval, lowval, signed, term), ovf
        return AInt(w, 0, m, lowmask & ~lowval, lowval, signed, term), ovf
    if base == 'Mul':
        lo, hi = a.lo * b.lo, a.hi * b.hi
        ovf = abool(1 if lo > m else 0, 1 if hi > m else 0)
        tz = 0
        ta = (a.kz & -a.kz if False else 0)
        za = _trailing_zeros(a)
        zb = _trailing_zeros(b)
        tzm = M(min(w, za + zb))
        if hi <= m:
            return AInt(w, lo, hi, tzm, 0, signed, term), ovf
        return AInt(w, 0, m, tzm, 0, signed, term), ovf
    if base == 'Div':
        if b.hi == 0:
            return topint(w, signed, term), FALSE
        return AInt(w, a.lo // b.hi, a.hi // max(b.lo, 1), 0, 0, signed, term), FALSE
    if base == 'Rem':
        if b.hi == 0:
            return topint(w, signed, term), FALSE
        hi = min(a.hi, b.hi - 1)
        lo = 0
        if a.hi < b.lo:
            lo, hi = a.lo, a.hi
        # x % 2^k keeps the low bits
        kz = ko = 0
        if b.const is not None and b.const & (b.const - 1) == 0:
            mm = b.const - 1
            kz, ko = (a.kz & mm) | (m & ~mm), a.ko & mm
        return AInt(w, lo, hi, kz, ko, signed, term), FALSE
    if base in ('BitAnd', 'BitOr', 'BitXor'):
        r = _bitwise(base, a, b, w)
        return AInt(w, r.lo, r.hi, r.kz, r.ko, signed, term), FALSE
    if base == 'Shl':
        if cb is not None:
            s = cb & (w - 1) if cb >= w else cb
            if cb >= w:
                s = cb % w
            kz = ((a.kz << s) | M(s)) & m
            ko = (a.ko << s) & m
            if (a.hi << s) <= m:
                return AInt(w, a.lo << s, a.hi << s, kz, ko, signed, term), FALSE
            return AInt(w, 0, m, kz, ko, signed, term), FALSE
        smin = min(b.lo, w - 1)
        return AInt(w, 0, m, M(min(w, _trailing_zeros(a) + smin)), 0, signed, term), FALSE
    if base == 'Shr':
        if signed:
            return topint(w, True, term), FALSE
        if cb is not None:
            s = cb % w if cb >= w else cb
            kz = (a.kz >> s) | (m & ~(m >> s))
            return AInt(w, a.lo >> s, a.hi >> s, kz, a.ko >> s, signed, term), FALSE
        return AInt(w, a.lo >> min(b.hi, w - 1), a.hi >> min(b.lo, w - 1), 0, 0, signed, term), FALSE
    raise NotImplementedError('binop %s' % op)


def _signed_binop(base, a, b, w, term):
    smin, smax = -(1 << (w - 1)), (1 << (w - 1)) - 1
    m = M(w)
    if base in ('Add', 'Sub', 'Mul'):
        if base == 'Add':
            lo, hi = a.lo + b.lo, a.hi + b.hi
        elif base == 'Sub':
            lo, hi = a.lo - b.hi, a.hi - b.lo
        else:
            ps = [a.lo * b.lo, a.lo * b.hi, a.hi * b.lo, a.hi * b.hi]
            lo, hi = min(ps), max(ps)
        never = smin <= lo and hi <= smax
        always = hi < smin or lo > smax
        ovf = abool(1 if always else 0, 0 if never else 1)
        if never:
            return AInt(w, lo, hi, signed=True, term=term), ovf
        return topint(w, True, term), ovf
    if base in ('BitAnd', 'BitOr', 'BitXor'):
        if a.nonneg() and b.nonneg():
            r = _bitwise(base, AInt(w, a.lo, a.hi, a.kz, a.ko), AInt(w, b.lo, b.hi, b.kz, b.ko), w)
            if r.hi <= smax:
                return AInt(w, r.lo, r.hi, r.kz, r.ko, True, term), FALSE
        if base == 'BitAnd':
            kz, ko = a.kz | b.kz, a.ko & b.ko
            # x & non-negative mask is within [0, mask]
            if b.nonneg():
                return AInt(w, 0, b.hi, kz, ko, True, term), FALSE
            if a.nonneg():
                return AInt(w, 0, a.hi, kz, ko, True, term), FALSE
        elif base == 'BitOr':
            kz, ko = a.kz & b.kz, a.ko | b.ko
        else:
            kz = (a.kz & b.kz) | (a.ko & b.ko)
            ko = (a.kz & b.ko) | (a.ko & b.kz)
        return AInt(w, smin, smax, kz, ko, True, term), FALSE
    if base == 'Shr':
        if b.const is not None:
            sft = b.const % w
            return AInt(w, a.lo >> sft, a.hi >> sft, signed=True, term=term), FALSE
        if a.nonneg():
            return AInt(w, 0, a.hi, signed=True, term=term), FALSE
        return topint(w, True, term), FALSE
    if base == 'Shl':
        if b.const is not None and a.nonneg():
            sft = b.const % w
            if (a.hi << sft) <= smax:
                return AInt(w, a.lo << sft, a.hi << sft, signed=True, term=term), FALSE
        return topint(w, True, term), FALSE
    if base in ('Div', 'Rem'):
        if a.nonneg() and b.lo > 0:
            if base == 'Div':
                return AInt(w, a.lo // b.hi, a.hi // b.lo, signed=True, term=term), FALSE
            return AInt(w, 0, min(a.hi, b.hi - 1), signed=True, term=term), FALSE
        return topint(w, True, term), FALSE
    raise NotImplementedError('signed binop %s' % base)


def _trailing_zeros(a):
    n = 0
    while n < a.w and (a.kz >> n) & 1:
        n += 1
    return n


def _bitwise(base, a, b, w):
    m = M(w)
    if base == 'BitAnd':
        kz = a.kz | b.kz
        ko = a.ko & b.ko
        return AInt(w, 0, min(a.hi, b.hi), kz, ko)
    if base == 'BitOr':
        kz = a.kz & b.kz
        ko = a.ko | b.ko
        return AInt(w, max(a.lo, b.lo), M(_bitlen_hi(a, b)), kz, ko)
    kz = (a.kz & b.kz) | (a.ko & b.ko)
    ko = (a.kz & b.ko) | (a.ko & b.kz)
    return AInt(w, 0, M(_bitlen_hi(a, b)), kz, ko)


def _const_binop(base, ca, cb, w, signed, a, b, term):
    m = M(w)
    if signed and base in ('Add', 'Sub', 'Mul', 'Div', 'Rem', 'Shr'):
        sa, sb = to_signed(ca, w), to_signed(cb, w) if base != 'Shr' else cb
        lim_lo, lim_hi = -(1 << (w - 1)), (1 << (w - 1)) - 1
        if base == 'Add':
            r = sa + sb
        elif base == 'Sub':
            r = sa - sb
        elif base == 'Mul':
            r = sa * sb
        elif base == 'Div':
            if sb == 0:
                return topint(w, True, term), FALSE
            r = abs(sa) // abs(sb) * (1 if (sa < 0) == (sb < 0) else -1)
        elif base == 'Rem':
            if sb == 0:
                return topint(w, True, term), FALSE
            r = abs(sa) % abs(sb) * (1 if sa >= 0 else -1)
        else:
            r = sa >> (cb % w)
        ovf = TRUE if not (lim_lo <= r <= lim_hi) else FALSE
        rr = cint(w, r & m, True)
        return (rr.with_term(term) if term is not None else rr), ovf
    ovf = FALSE
    if base == 'Add':
        r = ca + cb
        ovf = TRUE if r > m else FALSE
    elif base == 'Sub':
        r = ca - cb
        ovf = TRUE if r < 0 else FALSE
    elif base == 'Mul':
        r = ca * cb
        ovf = TRUE if r > m else FALSE
    elif base == 'Div':
        if cb == 0:
            return topint(w, signed, term), FALSE
        r = ca // cb
    elif base == 'Rem':
        if cb == 0:
            return topint(w, signed, term), FALSE
        r = ca % cb
    elif base == 'BitAnd':
        r = ca & cb
    elif base == 'BitOr':
        r = ca | cb
    elif base == 'BitXor':
        r = ca ^ cb
    elif base == 'Shl':
        r = ca << (cb % w)
    elif base == 'Shr':
        r = ca >> (cb % w)
    else:
        raise NotImplementedError(base)
    r &= m
    rr = cint(w, r, signed)
    return (rr.with_term(term) if term is not None else rr), ovf


def _cmp_relational(op, a, b, w):
    """decide an unsigned comparison of two values whose terms differ by a constant (a == b + d mod 2^w) when the
    interval of one of them shows that adding the (signed reading of the) constant cannot wrap"""
    d = T.op('Sub', w, a.term, b.term)
    if d is None or d[0] != 'c':
        return None
    ds = d[2] - (1 << w) if d[2] >> (w - 1) else d[2]
    m = M(w)
    exact = (0 <= b.lo + ds and b.hi + ds <= m) or (0 <= a.lo - ds and a.hi - ds <= m)
    if not exact:
        return None
    res = {'Eq': ds == 0, 'Ne': ds != 0, 'Lt': ds < 0, 'Le': ds <= 0, 'Gt': ds > 0, 'Ge': ds >= 0}[op]
    return TRUE if res else FALSE


def _cmp(op, a, b, signed, term):
    if a.signed != b.signed:
        # mixed (should not happen in MIR): compare patterns
        al, ah = a.urange()
        bl, bh = b.urange()
    else:
        al, ah, bl, bh = a.lo, a.hi, b.lo, b.hi
    if op == 'Eq' or op == 'Ne':
        never = ah < bl or bh < al or (a.ko & b.kz) or (a.kz & b.ko)
        always = a.lo == a.hi and b.lo == b.hi and al == bl
        if op == 'Eq':
            return FALSE if never else (TRUE if always else abool(0, 1, term))
        return TRUE if never else (FALSE if always else abool(0, 1, term))
    if op == 'Lt':
        return TRUE if ah < bl else (FALSE if al >= bh else abool(0, 1, term))
    if op == 'Le':
        return TRUE if ah <= bl else (FALSE if al > bh else abool(0, 1, term))
    if op == 'Gt':
        return TRUE if al > bh else (FALSE if ah <= bl else abool(0, 1, term))
    if op == 'Ge':
        return TRUE if al >= bh else (FALSE if ah < bl else abool(0, 1, term))
    raise NotImplementedError(op)


def unop(I, op, a, is_bool=None):
    w = a.w
    m = M(w)
    if is_bool is None:
        is_bool = (a.w == 8 and a.kz == 0xFE) or (a.w == 8 and a.hi <= 1 and a.kz & 0xFE == 0xFE)
    term = T.op(op, w, a.term) if (T.ENABLED and a.term is not None) else None
    if op == 'Not' and is_bool and term is not None:
        term = T.op('BitXor', 8, a.term, T.const(8, 1))
    if op == 'Not':
        if is_bool:
            if a.const is not None:
                return FALSE if a.const else TRUE
            r = abool(0, 1, term)
            if a.cmp is not None and a.cmp[0] in ('Lt', 'Le', 'Gt', 'Ge', 'Eq', 'Ne'):
                inv = {'Lt': 'Ge', 'Le': 'Gt', 'Gt': 'Le', 'Ge': 'Lt', 'Eq': 'Ne', 'Ne': 'Eq'}[a.cmp[0]]
                r.cmp = (inv,) + tuple(a.cmp[1:])
            return r
        if a.const is not None:
            r = cint(w, m & ~a.const, a.signed)
            return r.with_term(term) if term is not None else r
        if a.signed:
            return AInt(w, -a.hi - 1, -a.lo - 1, a.ko, a.kz, True, term)
        return AInt(w, m - a.hi, m - a.lo, a.ko, a.kz, False, term)
    if op == 'Neg':
        if a.const is not None:
            r = cint(w, (-a.const) & m, a.signed)
            return r.with_term(term) if term is not None else r
        if a.signed and a.lo > -(1 << (w - 1)):
            return AInt(w, -a.hi, -a.lo, signed=True, term=term)
        return topint(w, a.signed, term)
    raise NotImplementedError('unop %s' % op)


def int_cast(a, sw, ssigned, dw, dsigned, term=None):
    """IntToInt cast of an abstract integer"""
    dm = M(dw)
    if T.ENABLED and a.term is not None and term is None:
        term = T.op('sext' if (ssigned and dw > sw) else ('zext' if dw > sw else ('trunc' if dw < sw else 'id')), dw, a.term)
    if a.const is not None:
        v = a.const
        if ssigned and dw > sw:
            v = to_signed(v, sw) & dm
        r = cint(dw, v & dm, dsigned)
        return r.with_term(term) if term is not None else r
    dsmax = (1 << (dw - 1)) - 1
    # numeric value preserved?
    if ssigned and a.lo < 0:
        if dsigned and dw >= sw:
            return AInt(dw, a.lo, a.hi, signed=True, term=term)
        if a.hi < 0 and dw >= sw and not dsigned:
            return AInt(dw, (a.lo & dm), (a.hi & dm), signed=False, term=term)
        if dw < sw and dsigned and a.lo >= -(1 << (dw - 1)) and a.hi <= dsmax:
            return AInt(dw, a.lo, a.hi, signed=True, term=term)
        return AInt(dw, *((-(1 << (dw - 1)), dsmax) if dsigned else (0, dm)), kz=a.kz & dm if dw <= sw else 0,
                    ko=a.ko & dm if dw <= sw else 0, signed=dsigned, term=term)
    # non-negative source value in [a.lo, a.hi]
    lo, hi = a.lo, a.hi
    if dw >= sw:
        kz = a.kz | (dm & ~M(sw))
        ko = a.ko
    else:
        kz, ko = a.kz & dm, a.ko & dm
        if hi > dm:
            lo, hi = 0, dm
    if dsigned:
        if hi <= dsmax:
            return AInt(dw, lo, hi, kz, ko, True, term)
        if lo > dsmax:
            return AInt(dw, lo - (1 << dw), hi - (1 << dw), kz, ko, True, term)
        return AInt(dw, -(1 << (dw - 1)), dsmax, kz, ko, True, term)
    return AInt(dw, lo, hi, kz, ko, False, term)


def cast(I, st, kind, a, src_ty, dst_ty):
    from interp import Unsupported, RawPtr
    sd = I.types[src_ty]
    dd = I.types[dst_ty]
    if kind == 'IntToInt':
        si = I.int_info(src_ty)
        di = I.int_info(dst_ty)
        if isinstance(a, Enum) and not a.f:
            # C-like enum to integer
            return cint(di[0], a.variant, di[1])
        if not isinstance(a, AInt):
            raise Unsupported('IntToInt of %r' % (a,))
        r = int_cast(a, si[0], si[1], di[0], di[1])
        if dd['k'] == 'bool':
            return abool(r.lo, min(r.hi, 1), r.term)
        return r
    if kind in ('PtrToPtr', 'PointerCoercion(MutToConstPointer)', 'PointerCoercion(ArrayToPointer)', 'FnPtrToPtr'):
        return ptr_cast(I, a, sd, dd)
    if kind.startswith('PointerCoercion(Unsize'):
        if isinstance(a, (Ptr, RawPtr)):
            sp = I.types[sd['t']]
            dp = I.types[dd['t']]
            if sp['k'] == 'array' and dp['k'] == 'slice':
                q = a.copy()
                if q.elem is not None:
                    # pointer to an element (itself an array) of an outer array: address the element directly
                    if isinstance(q, RawPtr):
                        es = I.types[sd['t']].get('size')
                        if q.elem.const is None:
                            raise Unsupported('unsize of abstract element pointer into a constant')
                        q.off += q.elem.const * es
                    else:
                        q.path = q.path + ((('i', q.elem.const),) if q.elem.const is not None else (('i?', q.elem),))
                if q.length is None or q.start is None:
                    q.start = I.usize(0)       # (a windowed array view keeps its start)
                q.elem = None
                q.length = I.usize(sp['n'])
                q.view = None
                return q
            if dp['k'] == 'dyn':
                return a
            if sp['k'] == 'adt' and dp['k'] == 'adt' and sp.get('path') == dp.get('path'):
                # struct whose last field is unsized: [T; N] -> [T]
                n = tail_array_len(I, sd['t'])
                if n is not None and a.elem is None and a.length is None:
                    q = a.copy()
                    q.start = None
                    q.length = I.usize(n)
                    return q
        raise Unsupported('unsize coercion %s -> %s' % (sd['s'][:40], dd['s'][:40]))
    if kind.startswith('PointerCoercion(ReifyFnPointer') or kind.startswith('PointerCoercion(ClosureFnPointer') \
            or kind.startswith('PointerCoercion(UnsafeFnPointer'):
        return a
    if kind == 'Transmute':
        return transmute(I, a, src_ty, dst_ty)
    if kind == 'PointerExposeProvenance':
        return ptr_addr(I, a)
    if kind in ('IntToFloat', 'FloatToInt', 'FloatToFloat'):
        return I.top(dst_ty)
    raise Unsupported('cast kind %s' % kind)


def tail_array_len(I, t):
    d = I.types[t]
    for _ in range(6):
        if d['k'] == 'array':
            return d['n'] if isinstance(d['n'], int) else None
        if d['k'] == 'adt' and d['adt_kind'] == 'struct' and d['variants'][0]['f']:
            d = I.types[d['variants'][0]['f'][-1]['t']]
            continue
        return None
    return None


def ptr_cast(I, a, sd, dd):
    from interp import Unsupported, RawPtr
    if not isinstance(a, (Ptr, RawPtr)):
        if isinstance(a, Opaque):
            return Opaque(None)
        raise Unsupported('pointer cast of %r' % (a,))
    st_, dt_ = sd.get('t'), dd.get('t')
    if st_ == dt_:
        return a
    sp, dp = I.types[st_], I.types[dt_]
    q = a.copy()
    # fat -> thin
    if q.length is not None and dp['k'] not in ('slice', 'str'):
        q.elem = q.start
        q.start = None
        q.length = None
        q.view = None if (sp['k'] in ('slice',) and sp['e'] == dt_) else dt_
        return q
    if q.length is not None and dp['k'] in ('slice', 'str'):
        if sp.get('e') == dp.get('e') or (sp['k'] == 'str' or dp['k'] == 'str'):
            return q
        if 'e' in sp and 'e' in dp and I.types[sp['e']].get('size') == I.types[dp['e']].get('size'):
            q.view = dt_       # same layout (e.g. [MaybeUninit<T>] -> [T]): elements are adapted when read
            return q
        raise Unsupported('slice pointer cast changing the element type')
    # pointer to array -> pointer to its element
    if sp['k'] == 'array' and sp['e'] == dt_ and q.elem is None:
        q.elem = I.usize(0)
        q.view = None
        return q
    # pointer to (a wrapper of) an array of T cast to pointer to T: element pointer
    if isinstance(q, Ptr) and q.elem is None and q.length is None and I.cur_state is not None and dp.get('size'):
        nb = I.array_base(q, I.cur_state, dt_)
        if nb is not None:
            return nb
    # same representation (transparent wrappers) : keep the location, change the view
    q.view = dt_
    return q


def ptr_addr(I, a):
    """what is known about the numeric address of a pointer: its low bits, from the alignment of the allocation"""
    from interp import RawPtr, Unsupported
    w = I.ptr_bits
    if isinstance(a, RawPtr):
        al, _ = I.alloc(a.aid)
        align = al.get('align', 1)
        off = I.usize(a.off)
        if a.elem is not None:
            eu = a.eunit or (I.types[a.view].get('size', 1) if a.view is not None else 1)
            t, _ = binop(I, 'Mul', a.elem, I.usize(eu), w, False)
            off, _ = binop(I, 'Add', off, t, w, False)
        mask = align - 1
        return AInt(w, 1, M(w), off.kz & mask, off.ko & mask)
    return AInt(w, 1, M(w))


def flatten(I, v, t):
    """value -> list of abstract bytes (little endian), or None"""
    d = I.types[t]
    if hasattr(v, 'b') and hasattr(v, 'term') and not isinstance(v, AInt):
        # SIMD vector: its bytes (terms are slices of the vector term)
        if T.ENABLED and v.term is not None:
            return [AInt(8, x.lo, x.hi, x.kz, x.ko, term=T.slice_(v.term, 8 * j, 8)) for j, x in enumerate(v.b)]
        return list(v.b)
    ii = I.int_info(t)
    if ii:
        if not isinstance(v, AInt):
            return None
        n = ii[0] // 8
        out = []
        for i in range(n):
            if v.const is not None:
                out.append(cint(8, (v.const >> (8 * i)) & 0xFF))
            else:
                kz = (v.kz >> (8 * i)) & 0xFF
                ko = (v.ko >> (8 * i)) & 0xFF
                term = T.op('byte', 8, v.term, T.const(8, i)) if (T.ENABLED and v.term is not None) else None
                out.append(AInt(8, 0, 255, kz, ko, term=term))
        return out
    from interp import UnionVal
    if isinstance(v, UnionVal) and d['k'] == 'adt' and d['adt_kind'] == 'union' and v.active is not None and \
            not isinstance(v.v, Uninit):
        ft = d['variants'][0]['f'][v.active]['t']
        if I.types[ft].get('size') == d.get('size'):
            return flatten(I, v.v, ft)
        return None
    if d['k'] == 'array':
        if isinstance(v, Arr):
            out = []
            for e in v.e:
                b = flatten(I, e, d['e'])
                if b is None:
                    return None
                out += b
            return out
        return None
    if d['k'] == 'adt' and d['adt_kind'] == 'struct' or d['k'] == 'tuple':
        fts = d['f'] if d['k'] == 'tuple' else [f['t'] for f in d['variants'][0]['f']]
        nz = [(i, ft) for i, ft in enumerate(fts) if I.types[ft].get('size') != 0]
        if len(nz) == 1 and isinstance(v, Struct):
            return flatten(I, v.f[nz[0][0]], nz[0][1])
        if isinstance(v, Struct) and d.get('offs') is not None and d.get('size') is not None:
            # only densely packed structs
            parts = sorted([(d['offs'][i], i, ft) for i, ft in nz])
            out = []
            pos = 0
            for off, i, ft in parts:
                if off != pos:
                    return None
                b = flatten(I, v.f[i], ft)
                if b is None:
                    return None
                out += b
                pos += len(b)
            return out if pos == d['size'] else None
    return None


def unflatten(I, bs, t):
    d = I.types[t]
    from interp import is_simd_type
    if is_simd_type(d) and len(bs) == 16:
        import simd
        term = T.cat(128, [b.term for b in bs]) if (T.ENABLED and all(b.term is not None for b in bs)) else None
        return simd.Vec(t, [AInt(8, b.lo, b.hi, b.kz, b.ko) for b in bs], term)
    ii = I.int_info(t)
    if ii:
        n = ii[0] // 8
        if len(bs) != n:
            return None
        if all(b.const is not None for b in bs):
            v = 0
            for i, b in enumerate(bs):
                v |= b.const << (8 * i)
            return cint(ii[0], v, ii[1])
        kz = ko = 0
        for i, b in enumerate(bs):
            kz |= b.kz << (8 * i)
            ko |= b.ko << (8 * i)
        term = None
        if T.ENABLED and all(b.term is not None for b in bs):
            term = T.op('cat', ii[0], *[b.term for b in bs])
        return AInt(ii[0], 0, M(ii[0]), kz, ko, ii[1], term)
    if d['k'] == 'array':
        es = I.types[d['e']].get('size')
        if es is None or es * d['n'] != len(bs):
            return None
        out = []
        for i in range(d['n']):
            e = unflatten(I, bs[i * es:(i + 1) * es], d['e'])
            if e is None:
                return None
            out.append(e)
        return Arr(t, out)
    if d['k'] == 'adt' and d['adt_kind'] == 'enum':
        return unflatten_enum(I, bs, t, d)
    if d['k'] == 'adt' and d['adt_kind'] == 'union':
        from interp import UnionVal
        fs = d['variants'][0]['f']
        nz = [i for i, f in enumerate(fs) if I.types[f['t']].get('size') != 0]
        if len(nz) == 1 and I.types[fs[nz[0]]['t']].get('size') == len(bs):
            inner = unflatten(I, bs, fs[nz[0]]['t'])
            if inner is not None:
                return UnionVal(t, nz[0], inner)
        return None
    if d['k'] == 'tuple' or (d['k'] == 'adt' and d['adt_kind'] == 'struct'):
        fts = d['f'] if d['k'] == 'tuple' else [f['t'] for f in d['variants'][0]['f']]
        out = [None] * len(fts)
        offs = d.get('offs') or [0] * len(fts)
        for i, ft in enumerate(fts):
            sz = I.types[ft].get('size')
            if sz is None:
                return None
            if sz == 0:
                out[i] = I.zst(ft)
            else:
                e = unflatten(I, bs[offs[i]:offs[i] + sz], ft)
                if e is None:
                    return None
                out[i] = e
        return Struct(t, out)
    return None


def unflatten_enum(I, bs, t, d):
    el = d.get('enum_layout')
    if el is None:
        if len(d['variants']) == 1:
            offs = d.get('offs') or []
            fs = d['variants'][0]['f']
            vals = []
            for i, f in enumerate(fs):
                sz = I.types[f['t']].get('size')
                o = offs[i] if i < len(offs) else 0
                v = I.zst(f['t']) if sz == 0 else unflatten(I, bs[o:o + sz], f['t'])
                if v is None:
                    return None
                vals.append(v)
            return Enum(t, 0, vals)
        return None
    tb = bs[el['tag_off']:el['tag_off'] + el['tag_size']]
    tw = 8 * el['tag_size']
    if all(b.const is not None for b in tb):
        tag = 0
        for i, b in enumerate(tb):
            tag |= b.const << (8 * i)
        cands = None
    else:
        tag = None
    def variant_vals(vi):
        offs = el['variant_offs'][vi]
        vals = []
        for i, f in enumerate(d['variants'][vi]['f']):
            sz = I.types[f['t']].get('size')
            o = offs[i] if i < len(offs) else 0
            v = I.zst(f['t']) if sz == 0 else unflatten(I, bs[o:o + sz], f['t'])
            if v is None:
                v = I.top(f['t'])
            vals.append(v)
        return tuple(vals)
    nvar = len(d['variants'])
    if tag is not None:
        if el['enc'] == 'direct':
            ds = el.get('discrs') or list(range(nvar))
            if tag not in ds:
                return None
            vi = ds.index(tag)
        else:
            nv = el['niche_last'] - el['niche_first'] + 1
            rel = (tag - el['niche_start']) & M(tw)
            vi = el['niche_first'] + rel if rel < nv else el['untagged']
        return Enum(t, vi, variant_vals(vi))
    # abstract tag: which variants are possible?
    tv = unflatten_int(tb, tw)
    poss = []
    for vi in range(nvar):
        if el['enc'] == 'direct':
            ds = el.get('discrs') or list(range(nvar))
            val = ds[vi]
            if tv.lo <= val <= tv.hi and not (val & tv.kz) and (val & tv.ko) == tv.ko:
                poss.append(vi)
        else:
            if vi == el['untagged']:
                poss.append(vi)
            elif el['niche_first'] <= vi <= el['niche_last']:
                val = (el['niche_start'] + vi - el['niche_first']) & M(tw)
                if tv.lo <= val <= tv.hi and not (val & tv.kz) and (val & tv.ko) == tv.ko:
                    poss.append(vi)
    if len(poss) == 1:
        return Enum(t, poss[0], variant_vals(poss[0]))
    return EnumAny(t, {vi: variant_vals(vi) for vi in poss})


def unflatten_int(bs, w):
    kz = ko = 0
    lo = hi = 0
    for i, b in enumerate(bs):
        kz |= b.kz << (8 * i)
        ko |= b.ko << (8 * i)
    return AInt(w, 0, M(w), kz, ko)


def transmute(I, a, src_ty, dst_ty):
    from interp import Unsupported, RawPtr
    if src_ty == dst_ty:
        return a
    sd, dd = I.types[src_ty], I.types[dst_ty]
    # pointer-like wrappers (NonNull, Unique, *const T, &T, usize-less)
    pa = unwrap_ptr(I, a)
    if pa is not None and is_ptr_like(I, dst_ty):
        q = pa.copy()
        tgt = ptr_pointee(I, dst_ty)
        src_pointee = ptr_pointee(I, src_ty)
        if tgt is not None and src_pointee is not None and tgt != src_pointee and I.types[tgt]['k'] not in ('slice', 'str'):
            q.view = tgt
        return wrap_ptr(I, q, dst_ty)
    if isinstance(a, AInt) and is_ptr_like(I, dst_ty):
        # an integer turned into a (dangling / sentinel) pointer: never dereferenceable
        return wrap_ptr(I, Ptr(('addr', a.const), (), null=(a.const == 0)), dst_ty)
    if pa is not None and I.int_info(dst_ty):
        return ptr_addr(I, pa)
    if isinstance(a, AInt) and dd['k'] == 'adt' and dd['adt_kind'] == 'enum' and dd.get('enum_layout', {}).get('enc') == 'niche' \
            and dd['enum_layout']['tag_off'] == 0 and dd['enum_layout']['tag_size'] * 8 == a.w and a.const is None:
        el = dd['enum_layout']
        # Option<NonZero<_>>-like: the integer itself is the niche
        nv = el['niche_last'] - el['niche_first'] + 1
        lo_n = el['niche_start']
        hi_n = el['niche_start'] + nv - 1
        ulo, uhi = a.urange()
        if uhi < lo_n or ulo > hi_n:
            vi = el['untagged']
            fs = dd['variants'][vi]['f']
            if len(fs) == 1:
                inner = transmute(I, a, src_ty, fs[0]['t']) if fs[0]['t'] != src_ty else a
                return Enum(dst_ty, vi, (inner,))
    bs = flatten(I, a, src_ty)
    if bs is not None:
        r = unflatten(I, bs, dst_ty)
        if r is not None:
            return r
    if sd.get('size') is not None and sd.get('size') == dd.get('size'):
        try:
            return I.top(dst_ty)
        except Unsupported:
            pass
    raise Unsupported('transmute %s -> %s' % (sd['s'][:50], dd['s'][:50]))


def is_ptr_like(I, t):
    d = I.types[t]
    if d['k'] in ('ref', 'ptr'):
        return True
    if d['k'] == 'adt' and d['adt_kind'] == 'struct':
        nz = [f['t'] for f in d['variants'][0]['f'] if I.types[f['t']].get('size') != 0]
        return len(nz) == 1 and is_ptr_like(I, nz[0])
    return False


def ptr_pointee(I, t):
    d = I.types[t]
    if d['k'] in ('ref', 'ptr'):
        return d['t']
    if d['k'] == 'adt' and d['adt_kind'] == 'struct':
        nz = [f['t'] for f in d['variants'][0]['f'] if I.types[f['t']].get('size') != 0]
        if len(nz) == 1:
            return ptr_pointee(I, nz[0])
    return None


def unwrap_ptr(I, v):
    from interp import RawPtr
    while isinstance(v, Struct):
        nz = [x for x in v.f if not (isinstance(x, Struct) and not x.f)]
        cands = [x for x in v.f if isinstance(x, (Ptr, RawPtr, Struct))]
        ptrs = [x for x in v.f if isinstance(x, (Ptr, RawPtr))]
        if len(ptrs) == 1:
            return ptrs[0]
        inner = [x for x in v.f if isinstance(x, Struct) and x.f]
        if len(inner) == 1:
            v = inner[0]
            continue
        return None
    if isinstance(v, (Ptr, RawPtr)):
        return v
    return None


def wrap_ptr(I, p, t):
    d = I.types[t]
    if d['k'] in ('ref', 'ptr'):
        return p
    fs = []
    for f in d['variants'][0]['f']:
        if I.types[f['t']].get('size') == 0:
            fs.append(I.zst(f['t']))
        else:
            fs.append(wrap_ptr(I, p, f['t']))
    return Struct(t, fs)
