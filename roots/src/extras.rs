// Hand-written roots: inherent methods and free functions (no trait to enumerate).

pub fn verif_root__rc2__Rc2__new_with_eff_key_len(key: &[u8], eff: usize) -> rc2::Rc2 {
    rc2::Rc2::new_with_eff_key_len(key, eff)
}

pub fn verif_root__belt_block__free__belt_block_raw(x: [u32; 4], key: &[u32; 8]) -> [u32; 4] {
    belt_block::belt_block_raw(x, key)
}
pub fn verif_root__belt_block__free__belt_wblock_enc(
    data: &mut [u8],
    key: &[u32; 8],
) -> Result<(), belt_block::InvalidLengthError> {
    belt_block::belt_wblock_enc(data, key)
}
pub fn verif_root__belt_block__free__belt_wblock_dec(
    data: &mut [u8],
    key: &[u32; 8],
) -> Result<(), belt_block::InvalidLengthError> {
    belt_block::belt_wblock_dec(data, key)
}

macro_rules! threefish_roots {
    ($t:ty, $n:literal, $a:ident, $b:ident, $c:ident, $d:ident) => {
        pub fn $a(key: &[u8; $n * 8], tweak: &[u8; 16]) -> $t {
            <$t>::new_with_tweak(key, tweak)
        }
        pub fn $b(key: &[u64; $n], tweak: &[u64; 2]) -> $t {
            <$t>::new_with_tweak_u64(key, tweak)
        }
        pub fn $c(c: &$t, block: &mut [u64; $n]) {
            c.encrypt_block_u64(block)
        }
        pub fn $d(c: &$t, block: &mut [u64; $n]) {
            c.decrypt_block_u64(block)
        }
    };
}
threefish_roots!(
    threefish::Threefish256,
    4,
    verif_root__threefish__Threefish256__new_with_tweak,
    verif_root__threefish__Threefish256__new_with_tweak_u64,
    verif_root__threefish__Threefish256__encrypt_block_u64,
    verif_root__threefish__Threefish256__decrypt_block_u64
);
threefish_roots!(
    threefish::Threefish512,
    8,
    verif_root__threefish__Threefish512__new_with_tweak,
    verif_root__threefish__Threefish512__new_with_tweak_u64,
    verif_root__threefish__Threefish512__encrypt_block_u64,
    verif_root__threefish__Threefish512__decrypt_block_u64
);
threefish_roots!(
    threefish::Threefish1024,
    16,
    verif_root__threefish__Threefish1024__new_with_tweak,
    verif_root__threefish__Threefish1024__new_with_tweak_u64,
    verif_root__threefish__Threefish1024__encrypt_block_u64,
    verif_root__threefish__Threefish1024__decrypt_block_u64
);

#[cfg(feature = "hazmat")]
mod hazmat_roots {
    use aes::hazmat::*;
    use aes::Block;
    pub fn verif_root__aes__hazmat__cipher_round(b: &mut Block, k: &Block) {
        cipher_round(b, k)
    }
    pub fn verif_root__aes__hazmat__cipher_round_par(b: &mut aes::hazmat::Block8, k: &aes::hazmat::Block8) {
        cipher_round_par(b, k)
    }
    pub fn verif_root__aes__hazmat__equiv_inv_cipher_round(b: &mut Block, k: &Block) {
        equiv_inv_cipher_round(b, k)
    }
    pub fn verif_root__aes__hazmat__equiv_inv_cipher_round_par(b: &mut aes::hazmat::Block8, k: &aes::hazmat::Block8) {
        equiv_inv_cipher_round_par(b, k)
    }
    pub fn verif_root__aes__hazmat__mix_columns(b: &mut Block) {
        mix_columns(b)
    }
    pub fn verif_root__aes__hazmat__inv_mix_columns(b: &mut Block) {
        inv_mix_columns(b)
    }
}

#[cfg(feature = "bcrypt")]
mod bcrypt_roots {
    use blowfish::Blowfish;
    pub fn verif_root__blowfish__Blowfish__salted_expand_key(c: &mut Blowfish, salt: &[u8], key: &[u8]) {
        c.salted_expand_key(salt, key)
    }
    pub fn verif_root__blowfish__Blowfish__bc_init_state() -> Blowfish {
        Blowfish::bc_init_state()
    }
    pub fn verif_root__blowfish__Blowfish__bc_encrypt(c: &Blowfish, lr: [u32; 2]) -> [u32; 2] {
        c.bc_encrypt(lr)
    }
    pub fn verif_root__blowfish__Blowfish__bc_expand_key(c: &mut Blowfish, key: &[u8]) {
        c.bc_expand_key(key)
    }
}
