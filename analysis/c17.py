"""C17 -- AES hazmat round functions (clause level; feature `hazmat`).

 H  dispatch agreement: each of the six public functions of `aes::hazmat` calls, inside /repo, exactly the function
    of the *same name* in the intrinsics module (on the branch where the CPU token reports AES support) and in
    `soft::fixslice::hazmat` (otherwise), passing its own parameters through in order.
 P  parallel = eight singles (engine L3) for the intrinsic backends: after `cipher_round_par` /
    `equiv_inv_cipher_round_par`, block lane i holds exactly the term the single function produces on
    (blocks[i], round_keys[i]).
 K  key-lane agreement for every backend (incl. the bitsliced software one): the term of output lane i mentions the
    round key of lane i and of no other lane.
 For the *software* implementation (bitsliced, engine L3b -- see bitform.py; S-box pair proved inverse by truth tables first):
 M  inv_mix_columns(mix_columns(b)) = b and mix_columns(inv_mix_columns(b)) = b for a symbolic block.
 I  round consistency: with the FIPS definitions  cipher_round(b, k) = MC(SR(SB(b))) ^ k  and
    equiv_inv_cipher_round(c, k') = IMC(ISR(ISB(c))) ^ k'  (SB / SR commute),
        mix_columns( equiv_inv_cipher_round( inv_mix_columns( cipher_round(b, k) ^ k ), k' ) ^ k' )  =  b
    for symbolic b, k, k' -- a necessary condition that ties the four functions together (any one of them deviating from
    its definition, e.g. S-box NOTs folded into the wrong place, breaks it).
 Ps parallel = eight singles for the software implementation too, compared in bit-level canonical form.
Not decided: that AESENC / AESE+AESMC / the bitsliced round *are* the FIPS-197 round transformations (conformance), and
M / I for the intrinsic implementations (AESIMC etc. are opaque).
"""
from facts import *
import equiv, engine
import terms as T
from values import *
from interp import State
from ops import flatten
from c14 import trace_param
from c04 import mentions, lanes_of

NAMES = ['cipher_round', 'cipher_round_par', 'equiv_inv_cipher_round', 'equiv_inv_cipher_round_par', 'mix_columns', 'inv_mix_columns']


def sym_names(t, out, seen=None):
    if seen is None:
        seen = set()
    if not isinstance(t, tuple) or id(t) in seen:
        return
    seen.add(id(t))
    if t[0] == 's':
        out.add(t[1])
    elif t[0] == 'cat':
        for (a, _, _) in t[2]:
            sym_names(a, out, seen)
    elif t[0] == 'lin':
        for (a, _) in t[3]:
            sym_names(a, out, seen)
    elif t[0] != 'c':
        for a in t[2:]:
            if isinstance(a, tuple):
                sym_names(a, out, seen)


def canon_symbols(byte_bits):
    """names of the input symbols the given bit-level normal forms depend on (through position-wise functions)"""
    import bitform
    seen, out = set(), set()
    stack = [a for bits in byte_bits for b in bits for a in b if a]
    while stack:
        a = stack.pop()
        if a in seen:
            continue
        seen.add(a)
        d = bitform._atom_of[a]
        if d[0] == 'pw':
            for s_ in d[3]:
                stack.extend(x for x in s_ if x and x not in seen)
        elif d[0][0] == 's':
            out.add(d[0][1])
        else:
            sym_names(d[0], out)
    return out


def soft_rules(chk, cfgname, m, mod):
    """rules M, I, Ps for the software hazmat module `mod` (bit-level engine)"""
    import c01, bitform
    from ops import unflatten
    n = 0
    base = '%s|%s' % (cfgname, mod)
    fns = {}
    for f in m.fns:
        if f['path'].rsplit('::', 1)[0] == mod and f['path'].rsplit('::', 1)[1] in NAMES:
            fns[f['path'].rsplit('::', 1)[1]] = f
    if set(fns) != set(NAMES):
        chk.fail_closed('M-mix-inverse', base, 'software hazmat functions missing: %s' % sorted(set(NAMES) - set(fns)))
        return 0
    summ, inv, lem, verdict = c01.bitlevel_setup(m, c01.bitlevel_spec('aes::soft'))
    if summ is None:
        if verdict is False:
            chk.violation('I-round-consistency', base + '|lemma', 'aes software S-box pair: %s' % lem)
        else:
            chk.undecided.append('software hazmat rules M / I / Ps in %s: bit-level mode not applicable (%s)' % (cfgname, lem))
            return None
        return 0
    try:
        equiv.fresh_terms()
        I = engine.mk_interp(m, 30_000_000)
        I.bitcanon = True
        T.BITCANON = True
        I.summaries = dict(summ)
        bitform.PW_INVERSES.update(inv)
        bty = m.ty(fns['mix_columns']['mir']['locals'][1])['t']

        def fresh_block(st, f, idx, name):
            a = engine.default_args(I, st, f)
            return a[idx]

        def bytes_of(st, p):
            return flatten(I, st.mem[p.obj], bty)

        def xor_into(st, p, q):
            a, b = bytes_of(st, p), bytes_of(st, q)
            st.mem[p.obj] = unflatten(I, [topint(8, False, T.op('BitXor', 8, x.term, y.term)) for x, y in zip(a, b)], bty)

        def same(st, p, want):
            got = bytes_of(st, p)
            return [i for i, (g, w) in enumerate(zip(got, want)) if g.term is None or bitform.recanon(g.term) is not w]

        # ---- M
        for (f1, f2) in (('mix_columns', 'inv_mix_columns'), ('inv_mix_columns', 'mix_columns')):
            n += 1
            key = base + '|M|%s-first' % f1
            st = State()
            b = fresh_block(st, fns[f1], 0, 'b')
            want = [x.term for x in bytes_of(st, b)]
            ok = True
            for fn in (f1, f2):
                status, r = engine.run(I, fns[fn]['id'], [b], st)
                if status != 'ok':
                    chk.fail_closed('M-mix-inverse', key + '|' + status, '%s: %s' % (fn, str(r)[:200]))
                    ok = False
                    break
            if not ok:
                continue
            bad = same(st, b, want)
            if bad:
                chk.violation('M-mix-inverse', key, '%s::%s(%s(b)) is not b (byte %d; bit-level canonical forms differ)' % (mod, f2, f1, bad[0]))
            else:
                chk.ok('M-mix-inverse', key, dict(module=mod, identity='%s(%s(b)) = b' % (f2, f1)))
        # ---- I
        n += 1
        key = base + '|I'
        st = State()
        a = engine.default_args(I, st, fns['cipher_round'])
        b, k = a[0], a[1]
        k2 = engine.default_args(I, st, fns['equiv_inv_cipher_round'])[1]
        want = [x.term for x in bytes_of(st, b)]
        steps = [('cipher_round', [b, k]), ('xor', k), ('inv_mix_columns', [b]), ('equiv_inv_cipher_round', [b, k2]), ('xor', k2), ('mix_columns', [b])]
        ok = True
        for (fn, args) in steps:
            if fn == 'xor':
                xor_into(st, b, args)
                continue
            status, r = engine.run(I, fns[fn]['id'], args, st)
            if status != 'ok':
                chk.fail_closed('I-round-consistency', key + '|' + status, '%s: %s' % (fn, str(r)[:200]))
                ok = False
                break
        if ok:
            bad = same(st, b, want)
            if bad:
                chk.violation('I-round-consistency', key,
                              '%s: mix_columns(equiv_inv_cipher_round(inv_mix_columns(cipher_round(b, k) ^ k), k2) ^ k2) is not b (byte %d): the '
                              'four software round functions are not the FIPS-197 transformations of one another' % (mod, bad[0]))
            else:
                chk.ok('I-round-consistency', key, dict(module=mod, identity='MC(EIC(IMC(CR(b,k)^k),k2)^k2) = b'))
        # ---- Ps
        for single_n, par_n in (('cipher_round', 'cipher_round_par'), ('equiv_inv_cipher_round', 'equiv_inv_cipher_round_par')):
            st = State()
            a = engine.default_args(I, st, fns[par_n])
            lin, lk = lanes_of(st.mem[a[0].obj]), lanes_of(st.mem[a[1].obj])
            status, r = engine.run(I, fns[par_n]['id'], a, st)
            if status != 'ok':
                chk.fail_closed('P-par-equals-singles', '%s|%s|%s' % (base, par_n, status), str(r)[:200])
                continue
            lout = lanes_of(st.mem[a[0].obj])
            for i in range(len(lin)):
                n += 1
                keyP = '%s::%s|%s|P|lane%d' % (base, par_n, 'soft', i)
                st2 = State()
                a2 = engine.default_args(I, st2, fns[single_n])
                st2.mem[a2[0].obj] = lin[i]
                st2.mem[a2[1].obj] = lk[i]
                status, r = engine.run(I, fns[single_n]['id'], a2, st2)
                if status != 'ok':
                    chk.fail_closed('P-par-equals-singles', keyP, str(r)[:200])
                    continue
                sb = flatten(I, st2.mem[a2[0].obj], bty)
                ob = flatten(I, lout[i], bty)
                # K on the canonical form: the symbols the output bits really depend on
                keyK = '%s::%s|K|lane%d' % (base, par_n, i)
                if ob is None or any(y.term is None for y in ob):
                    chk.violation('K-key-lane', keyK, '%s: output lane %d has no term' % (par_n, i))
                else:
                    used = canon_symbols([bitform.bitform(bitform.recanon(y.term)) for y in ob])
                    ks = []
                    for kv in lk:
                        s_ = set()
                        for b_ in flatten(I, kv, bty) or []:
                            if b_.term is not None:
                                sym_names(b_.term, s_)
                        ks.append(s_)
                    others = [j for j in range(len(lk)) if j != i and (ks[j] & used)]
                    if others or not (ks[i] & used):
                        chk.violation('K-key-lane', keyK, '%s::%s: output lane %d depends on the round key of lane(s) %s%s (bit-level canonical form)' % (
                            mod, par_n, i, others, '' if (ks[i] & used) else ' and not on its own'))
                    else:
                        chk.ok('K-key-lane', keyK)
                diff = [j for j, (x, y) in enumerate(zip(sb, ob)) if x.term is None or y.term is None or bitform.recanon(x.term) is not bitform.recanon(y.term)]
                if diff:
                    chk.violation('P-par-equals-singles', keyP, '%s::%s: lane %d byte %d differs from %s(blocks[%d], round_keys[%d]) (bit-level canonical forms)' % (
                        mod, par_n, i, diff[0], single_n, i, i))
                else:
                    chk.ok('P-par-equals-singles', keyP, dict(fn='%s::%s' % (mod, par_n), lane=i, engine='bit-level') if i == 0 else None)
    finally:
        T.BITCANON = False
        engine._INTERPS.clear()
    return n


def run(chk, facts_by_config):
    chk.trusted += ['the rewrite rules of analysis/terms.py', 'purity of the AES CPU intrinsics']
    chk.trusted += ['FIPS-197 as transcribed in analysis/c02.py; Intel SDM / Arm ARM definitions of the AES instructions as transcribed in analysis/c02_hw.py']
    for cfgname, F in facts_by_config.items():
        if 'hazmat' not in F.meta['cfg']['features']:
            continue
        chk.configs.append(cfgname)
        m = F.mono
        nH = nP = 0
        pubs = {f['name']: f for f in m.fns if f['path'].startswith('aes::hazmat::') and f['path'].split('::')[-1] in NAMES
                and f['path'].count('::') == 2}
        for name in NAMES:
            f = pubs.get(name)
            key = '%s|aes::hazmat::%s' % (cfgname, name)
            if f is None:
                chk.fail_closed('H-dispatch', key, 'aes::hazmat::%s not found' % name)
                continue
            nH += 1
            callees = []
            for b in f['mir']['bbs']:
                t = b['t']
                if t['k'] == 'call' and 'f' in t and t['f'].get('crate') == 'aes':
                    cf = m.fn(t['f']['inst']) if t['f'].get('inst') is not None else None
                    if cf is not None and any('cpufeatures' in x for x in cf.get('expn', [])):
                        continue
                    callees.append(t)
            mods = {}
            bad = []
            for t in callees:
                p = t['f'].get('path') or ''
                mod, _, nm = p.rpartition('::')
                params = [trace_param(f['mir'], a[1][0]) if a[0] in ('cp', 'mv') and len(a[1]) == 1 else None for a in t['a']]
                if nm != name:
                    bad.append('calls `%s` (a different round function)' % p)
                elif params != list(range(1, f['mir']['argc'] + 1)):
                    bad.append('passes %s instead of its own parameters in order to %s' % (params, p))
                mods[mod] = mods.get(mod, 0) + 1
            soft = [k for k in mods if k.endswith('soft::fixslice::hazmat')]
            intr = [k for k in mods if k.endswith(('ni::hazmat', 'armv8::hazmat'))]
            forced_soft = 'aes_force_soft' in F.meta['cfg']['cfg']
            if not soft:
                bad.append('has no software fallback call')
            if not forced_soft and not intr:
                bad.append('has no intrinsics call')
            if set(mods) - set(soft) - set(intr):
                bad.append('calls into unexpected modules %s' % sorted(set(mods) - set(soft) - set(intr)))
            if bad:
                chk.violation('H-dispatch', key, 'aes::hazmat::%s (%s): %s' % (name, fn_loc(f), '; '.join(bad)))
            else:
                chk.ok('H-dispatch', key, dict(fn=name, dispatches_to=sorted(mods)))
        # ---------------- P / K
        with equiv.TermMode():
            for mod in sorted(set(f['path'].rsplit('::', 1)[0] for f in m.fns if f['path'].endswith('::hazmat::cipher_round_par')
                                  and not f['path'].startswith('aes::hazmat'))):
                for single_n, par_n in (('cipher_round', 'cipher_round_par'), ('equiv_inv_cipher_round', 'equiv_inv_cipher_round_par')):
                    fs = [f for f in m.fns if f['path'] == '%s::%s' % (mod, single_n)]
                    fp = [f for f in m.fns if f['path'] == '%s::%s' % (mod, par_n)]
                    base = '%s|%s::%s' % (cfgname, mod, par_n)
                    if len(fs) != 1 or len(fp) != 1:
                        chk.fail_closed('P-par-equals-singles', base, 'functions not found')
                        continue
                    fs, fp = fs[0], fp[0]
                    engine._INTERPS.clear()
                    I = engine.mk_interp(m, 30_000_000)
                    st = State()
                    args = engine.default_args(I, st, fp)
                    blocks0 = st.mem[args[0].obj]
                    keys0 = st.mem[args[1].obj]
                    status, r = engine.run(I, fp['id'], args, st)
                    if status != 'ok':
                        chk.fail_closed('P-par-equals-singles', base + '|' + status, str(r)[:200])
                        continue
                    out = st.mem[args[0].obj]
                    lin, lk, lout = lanes_of(blocks0), lanes_of(keys0), lanes_of(out)
                    bty = m.ty(fs['mir']['locals'][1])['t']
                    keysyms = []
                    for kv in lk:
                        s = set()
                        for b in flatten(I, kv, bty) or []:
                            if b.term is not None:
                                sym_names(b.term, s)
                        keysyms.append(s)
                    is_soft = 'soft' in mod
                    for i in range(len(lin)):
                        nP += 1
                        ob = flatten(I, lout[i], bty)
                        # K
                        used = set()
                        for b in ob or []:
                            if b.term is not None:
                                sym_names(b.term, used)
                        others = [j for j in range(len(lk)) if j != i and (keysyms[j] & used)]
                        keyK = base + '|K|lane%d' % i
                        if is_soft:
                            # the raw term of a bitsliced lane mentions whatever shares its machine words (e.g. round keys
                            # bitsliced four at a time and masked out again): K is decided in soft_rules on the bit-level
                            # canonical form instead
                            continue
                        if ob is None or any(b.term is None for b in ob):
                            chk.violation('K-key-lane', keyK, '%s: output lane %d has no term' % (par_n, i))
                        elif others or not (keysyms[i] & used):
                            chk.violation('K-key-lane', keyK, '%s::%s: output lane %d uses the round key of lane(s) %s%s' % (
                                mod, par_n, i, others, '' if (keysyms[i] & used) else ' and not its own'))
                        else:
                            chk.ok('K-key-lane', keyK)
                        if is_soft:
                            continue
                        # P
                        Is = engine.mk_interp(m, 30_000_000)
                        st2 = State()
                        a2 = engine.default_args(Is, st2, fs)
                        st2.mem[a2[0].obj] = lin[i]
                        st2.mem[a2[1].obj] = lk[i]
                        status, r = engine.run(Is, fs['id'], a2, st2)
                        keyP = base + '|P|lane%d' % i
                        if status != 'ok':
                            chk.fail_closed('P-par-equals-singles', keyP, str(r)[:200])
                            continue
                        sb = flatten(Is, st2.mem[a2[0].obj], bty)
                        diff = [(j, x.term, y.term) for j, (x, y) in enumerate(zip(sb, ob)) if x.term is None or x.term is not y.term]
                        if diff:
                            chk.violation('P-par-equals-singles', keyP, '%s::%s: lane %d byte %d differs from %s(blocks[%d], round_keys[%d]): %s' % (
                                mod, par_n, i, diff[0][0], single_n, i, i, T.first_diff(diff[0][2], diff[0][1])))
                        else:
                            chk.ok('P-par-equals-singles', keyP, dict(fn='%s::%s' % (mod, par_n), lane=i) if i == 0 else None)
            for mod in sorted(set(f['path'].rsplit('::', 1)[0] for f in m.fns if f['path'].endswith('::hazmat::cipher_round_par')
                                  and 'soft' in f['path'])):
                nS = soft_rules(chk, cfgname, m, mod)
                if nS is not None:
                    chk.floor('soft-rules', nS, 'Soft.' + cfgname)
            import c17_fips
            nR = 0
            for mod in sorted(set(f['path'].rsplit('::', 1)[0] for f in m.fns if f['path'].endswith('::hazmat::cipher_round_par')
                                  and not f['path'].startswith('aes::hazmat'))):
                r = c17_fips.fips_rules(chk, cfgname, m, mod)
                if r is None:
                    nR = None          # undecided (anchors renamed): recorded as such, no floor
                    break
                nR += r
            if nR is not None:
                chk.floor('R-round-is-fips', nR, 'R.' + cfgname)
        chk.floor('H-dispatch', nH, 'H.' + cfgname)
        chk.floor('P', nP, 'P.' + cfgname)
