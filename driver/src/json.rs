// Minimal JSON value + writer (no cargo dependencies are available to a
// rustc_private driver besides the sysroot).
use std::fmt::Write;

#[derive(Clone, Debug)]
pub enum J {
    Null,
    Bool(bool),
    Int(i128),
    UInt(u128),
    Str(String),
    Arr(Vec<J>),
    Obj(Vec<(String, J)>),
}

impl J {
    pub fn s<S: Into<String>>(s: S) -> J {
        J::Str(s.into())
    }
    pub fn obj() -> J {
        J::Obj(Vec::new())
    }
    pub fn set<S: Into<String>>(&mut self, k: S, v: J) -> &mut Self {
        if let J::Obj(o) = self {
            o.push((k.into(), v));
        }
        self
    }
    pub fn with<S: Into<String>>(mut self, k: S, v: J) -> J {
        self.set(k, v);
        self
    }
    pub fn write(&self, out: &mut String) {
        match self {
            J::Null => out.push_str("null"),
            J::Bool(b) => out.push_str(if *b { "true" } else { "false" }),
            J::Int(i) => {
                let _ = write!(out, "{}", i);
            }
            J::UInt(i) => {
                let _ = write!(out, "{}", i);
            }
            J::Str(s) => write_str(s, out),
            J::Arr(a) => {
                out.push('[');
                for (i, x) in a.iter().enumerate() {
                    if i > 0 {
                        out.push(',');
                    }
                    x.write(out);
                }
                out.push(']');
            }
            J::Obj(o) => {
                out.push('{');
                for (i, (k, v)) in o.iter().enumerate() {
                    if i > 0 {
                        out.push(',');
                    }
                    write_str(k, out);
                    out.push(':');
                    v.write(out);
                }
                out.push('}');
            }
        }
    }
}

fn write_str(s: &str, out: &mut String) {
    out.push('"');
    for c in s.chars() {
        match c {
            '"' => out.push_str("\\\""),
            '\\' => out.push_str("\\\\"),
            '\n' => out.push_str("\\n"),
            '\r' => out.push_str("\\r"),
            '\t' => out.push_str("\\t"),
            c if (c as u32) < 0x20 => {
                let _ = write!(out, "\\u{:04x}", c as u32);
            }
            c => out.push(c),
        }
    }
    out.push('"');
}

pub fn arr<I: IntoIterator<Item = J>>(i: I) -> J {
    J::Arr(i.into_iter().collect())
}
