"""C01 -- decryption inverts encryption.

Decided by engine L3 (Herbrand terms = global value numbering with a fixed cancellation rewrite system; no solver,
no concrete input): for each rooted cipher type whose backend is the cipher type itself, `encrypt_block` is
interpreted on a symbolic block x and a symbolic instance (one symbol per field element; constant scalar fields
such as Twofish.start / Cast5.small_key are partitioned by the values the constructors can establish), its
output terms are fed to `decrypt_block` on the *same* instance, and the normalised result must be the term x --
and the other order.  Round keys are opaque symbols, S-box lookups are uninterpreted `sel(table, index)` terms:
nothing about the key schedule or the tables is assumed except that both directions read the same instance.
For the four Triple-DES types Des::encrypt / Des::decrypt are summarised as an opaque inverse pair, which makes
the proof exactly "decryption is the mirrored composition" (clause a).

Types whose inverse relies on algebra outside the rewrite system (AES, ARIA, IDEA, Serpent, Kuznyechik, GIFT, the
DES core, 48/96-bit Speck words on a wider carrier) are reported as *undecided*, not as passes.

BelT wide block: belt_wblock_dec(belt_wblock_enc(d)) = d and the other order are proved the same way on a symbolic
buffer for every enumerated length (quick: 32..=49, 63..65, 100; thorough: 32..=129, 255..257); other lengths are not
decided (the cost of the term proof grows quadratically with the length).
"""
import os
from facts import *
import equiv
import terms as T
from values import *

# families the rewrite system is expected to close (confirmed on the reference tree); anything else is "undecided"
EXPECTED_UNDECIDED_ADTS = {
    'aes::autodetect', 'aes::soft', 'aes::ni', 'aria::Aria', 'idea::Idea', 'serpent::Serpent', 'kuznyechik::Kuznyechik',
    'kuznyechik::KuznyechikEnc', 'kuznyechik::KuznyechikDec', 'gift_cipher::Gift128', 'des::des::Des',
    'speck_cipher::Speck48_72', 'speck_cipher::Speck48_96', 'speck_cipher::Speck96_96', 'speck_cipher::Speck96_144',
}
# pure helper functions treated as uninterpreted functions of their arguments (the identity holds for any such function)
SUMMARIES = {
    'twofish::Twofish': {'twofish::Twofish::g_func': 'twofish_g'},
}
TDES = ('des::tdes::TdesEde3', 'des::tdes::TdesEee3', 'des::tdes::TdesEde2', 'des::tdes::TdesEee2')


def expected_undecided(tyname):
    return any(tyname == a or tyname.startswith(a + '::') or tyname.startswith(a + '<') for a in EXPECTED_UNDECIDED_ADTS)


def self_builder(group_key):
    def build(I, ty):
        v = I.top(ty, 'self')
        if group_key and isinstance(v, Struct):
            f = list(v.f)
            for (idx, c) in group_key:
                if isinstance(f[idx], AInt):
                    f[idx] = cint(f[idx].w, c, f[idx].signed)
            v = Struct(v.ty, f)
        return v
    return build


def prove_type(job):
    cfgname, fdir, ty_s, tyname, group_keys = job
    F = Facts(cfgname, fdir)
    m = F.mono
    out = []
    with equiv.TermMode():
        T.INVERSES.clear()
        import engine
        for gk in (group_keys or [[]]):
            gk = [tuple(x) for x in gk if x[0] != 'conv'] if gk and gk[0] != 'conv' else []
            for first in ('enc', 'dec'):
                engine._INTERPS.clear()
                I = engine.mk_interp(m, 30_000_000)
                if tyname in TDES:
                    I.summaries = {'des::des::Des::encrypt': 'desE', 'des::des::Des::decrypt': 'desD'}
                    T.INVERSES.update({'fn:desE': 'fn:desD', 'fn:desD': 'fn:desE'})
                else:
                    I.summaries = SUMMARIES.get(tyname)
                try:
                    ok, detail = equiv.roundtrip(m, ty_s, self_builder(gk), first)
                except Exception as e:
                    import traceback
                    ok, detail = False, 'analysis error: %r %s' % (e, traceback.format_exc()[-300:])
                out.append(dict(group=[list(x) for x in gk], first=first, ok=ok, detail=detail))
    return (cfgname, tyname, out)


WBLOCK_QUICK = list(range(32, 50)) + [63, 64, 65, 100]
WBLOCK_THOROUGH = list(range(32, 130)) + [255, 256, 257]


def prove_wblock(job):
    cfgname, fdir, n = job
    F = Facts(cfgname, fdir)
    out = []
    with equiv.TermMode():
        for first in ('enc', 'dec'):
            try:
                ok, detail = equiv.wblock_roundtrip(F.mono, n, first)
            except Exception as e:
                ok, detail = False, 'analysis error: %r' % e
            out.append((first, ok, detail))
    return (cfgname, n, out)


def run(chk, facts_by_config):
    import multiprocessing as mp
    import ctor
    chk.trusted += ['the rewrite rules of analysis/terms.py (bit-vector / ring identities)', 'rustc MIR construction',
                    'core integer semantics as modelled', 'Des::decrypt inverts Des::encrypt (for the Triple-DES clause only)']
    res = ctor.run_all(facts_by_config, lens=ctor.lens_for_tier('quick'))
    jobs = []
    for cfgname, F in facts_by_config.items():
        chk.configs.append(cfgname)
        for t in F.roots_info['types']:
            tyname = pretty(t['ty'])
            r = res.get((cfgname, t['pub_path']), {})
            gks = r.get('group_keys') or [[]]
            gks = [g for g in gks if not (g and g[0] == 'conv')] or [[]]
            jobs.append((cfgname, F.dir, t['ty'], tyname, gks))
    wjobs = [(c, F.dir, n) for c, F in facts_by_config.items()
             for n in (WBLOCK_THOROUGH if chk.tier == 'thorough' else WBLOCK_QUICK)]
    wjobs.sort(key=lambda j: -j[2])
    with mp.Pool(min(16, os.cpu_count() or 4)) as pool:
        wasync = pool.map_async(prove_wblock, wjobs, chunksize=1)
        results = pool.map(prove_type, jobs, chunksize=1)
        wresults = wasync.get()
    for (cfgname, n, outs) in sorted(wresults):
        for (first, ok, detail) in outs:
            key = '%s|belt_wblock|len=%d|%s-first' % (cfgname, n, first)
            if ok:
                chk.ok('wblock-roundtrip', key, dict(length=n, order=first + ' first', proved=detail) if n in (32, 33) else None)
            elif ok is None:
                chk.fail_closed('wblock-roundtrip', key, detail)
            else:
                chk.violation('wblock-roundtrip', key, 'belt_wblock %s(%s(d)) = d on a %d-byte buffer could not be established by value numbering: %s' % (
                    'dec' if first == 'enc' else 'enc', first, n, detail[:300]))
    proved = {}
    for (cfgname, tyname, outs) in sorted(results):
        n_ok = sum(1 for o in outs if o['ok'])
        none = all(o['ok'] is None for o in outs)
        for o in outs:
            key = '%s|%s|%s-first%s' % (cfgname, tyname, o['first'], '|' + str(o['group']) if o['group'] else '')
            if o['ok']:
                chk.ok('roundtrip-identity', key, dict(type=tyname, order='%s then %s' % (o['first'], 'dec' if o['first'] == 'enc' else 'enc'),
                                                      group=o['group'], proved=o['detail']) if o['first'] == 'enc' else None)
                proved.setdefault(cfgname, set()).add(tyname)
            elif o['ok'] is None or expected_undecided(tyname):
                if not any(u.startswith(tyname + ': ') for u in chk.undecided):
                    chk.undecided.append('%s: %s' % (tyname, 'backend type differs from the cipher type (inverse keys are separate data)'
                                                     if o['ok'] is None else 'inverse relies on algebra outside the rewrite system'))
            else:
                chk.violation('roundtrip-identity', key,
                              '%s: %s(%s(x)) = x could not be established by value numbering: %s' % (
                                  tyname, 'dec' if o['first'] == 'enc' else 'enc', o['first'], o['detail'][:400]))
    for cfgname in facts_by_config:
        chk.floor('proved-types', len(proved.get(cfgname, ())), 'proved.' + cfgname)
    chk.extra['proved_types'] = {c: sorted(v) for c, v in proved.items()}
