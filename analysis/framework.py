"""Check framework: obligations, violations, known findings, evidence, exit status."""
import json, os, sys, time, hashlib, re

VERIF = os.path.dirname(os.path.dirname(os.path.abspath(__file__)))
EVIDENCE = os.environ.get('VERIF_EVIDENCE') or os.path.join(VERIF, 'evidence')
KNOWN = os.path.join(VERIF, 'known_findings.jsonl')
FLOORS = os.path.join(VERIF, 'analysis', 'floors.json')


def load_known():
    out = []
    if os.path.exists(KNOWN):
        for l in open(KNOWN):
            l = l.strip()
            if l and not l.startswith('#'):
                out.append(json.loads(l))
    return out


class Check:
    def __init__(self, pid, tier, level, technique):
        self.pid = pid
        self.tier = tier
        self.level = level
        self.technique = technique
        self.t0 = time.time()
        self.obligations = 0
        self.discharged = 0
        self.by_rule = {}          # rule -> [obligations, discharged]
        self.violations = []       # dict(key, rule, msg, detail)
        self.samples = []
        self.configs = []
        self.notes = []
        self.undecided = []
        self.trusted = []
        self.explanation = technique
        self.extra = {}
        self.known = [k for k in load_known() if k.get('property') == pid and k.get('status') == 'known']
        self.known_hit = []

    # ---- recording
    def ok(self, rule, key=None, sample=None):
        self.obligations += 1
        self.discharged += 1
        r = self.by_rule.setdefault(rule, [0, 0])
        r[0] += 1
        r[1] += 1
        if sample is not None and sum(1 for s in self.samples if s.get('rule') == rule) < 3:
            s = dict(rule=rule, key=key)
            s.update(sample if isinstance(sample, dict) else {'what': sample})
            self.samples.append(s)

    def assume_reviewed(self, keys, reviewed):
        """a panic edge the machine cannot discharge but a hand-written argument covers: listed as an assumption,
        never counted as discharged"""
        for k in keys:
            note = 'reviewed residual (not machine-discharged): %s -- %s' % (k, reviewed[k]['why'][:160])
            if note not in self.notes:
                self.notes.append(note)
        self.extra['reviewed_residuals_used'] = sorted(set(self.extra.get('reviewed_residuals_used', [])) | set(keys))

    def violation(self, rule, key, msg, detail=None):
        """key: stable identifier without line numbers: 'config|subject|rule|instance'"""
        self.obligations += 1
        r = self.by_rule.setdefault(rule, [0, 0])
        r[0] += 1
        full = '%s|%s' % (self.pid, key)
        for v in self.violations:
            if v['key'] == full:
                return
        self.violations.append(dict(key=full, rule=rule, msg=msg, detail=detail or {}))

    def fail_closed(self, rule, key, msg, detail=None):
        self.violation(rule, 'FAIL-CLOSED|' + key, 'fail-closed: ' + msg, detail)

    def floor(self, rule, counted, floor_key=None):
        """the number of instances of a rule must not fall below what was counted by hand on the reference tree"""
        floors = json.load(open(FLOORS)) if os.path.exists(FLOORS) else {}
        k = '%s.%s' % (self.pid, floor_key or rule)
        if self.tier != 'quick':
            k += '@' + self.tier       # instance counts depend on the tier (more lengths / configurations)
        want = floors.get(k, {}).get('min')
        self.extra.setdefault('floors', {})[k] = dict(counted=counted, floor=want)
        if os.environ.get('VERIF_RECORD_FLOORS') == '1':
            floors[k] = dict(min=(counted * 4) // 5 if counted >= 10 else max(counted - 1, 1 if counted else 0), counted=counted,
                             how='instances matched on the reference tree (%s); the floor is 80%% of that count: it guards against a rule that lost its anchors, not against ordinary code evolution' % time.strftime('%Y-%m-%d'))
            tmp = FLOORS + '.tmp%d' % os.getpid()
            with open(tmp, 'w') as fh:
                json.dump(floors, fh, indent=1, sort_keys=True)
            os.replace(tmp, FLOORS)       # atomic: a concurrent reader never sees a half-written file
            return
        if want is None:
            self.fail_closed(rule, 'floor|' + k, 'no floor recorded for %s in analysis/floors.json' % k)
        elif counted < want:
            self.fail_closed(rule, 'floor|' + k,
                             'rule %s matched %d instances, below the floor %d counted on the reference tree '
                             '(an anchor was lost, the rule would pass vacuously)' % (rule, counted, want))

    # ---- finishing
    def finish(self):
        wall = time.time() - self.t0
        known_keys = {}
        for k in self.known:
            known_keys[k['key']] = k
        real = []
        for v in self.violations:
            stripped = v['key'].split('|', 1)[1]
            kk = known_keys.get(v['key']) or known_keys.get(stripped)
            if kk is not None:
                self.known_hit.append((kk, v))
            else:
                real.append(v)
        os.makedirs(os.path.join(EVIDENCE, 'replay'), exist_ok=True)
        for kk, v in self.known_hit:
            print('KNOWN-FINDING: property=%s %s -- %s' % (self.pid, kk['key'], kk.get('what', v['msg'])))
        out_lines = []
        for v in real:
            h = hashlib.sha1(v['key'].encode()).hexdigest()[:10]
            name = re.sub(r'[^A-Za-z0-9_.-]+', '_', v['key'])[:80]
            path = os.path.join(EVIDENCE, 'replay', '%s-%s-%s.json' % (self.pid, name, h))
            json.dump(dict(property=self.pid, tier=self.tier, **v), open(path, 'w'), indent=1)
            print('  [%s] %s' % (v['rule'], v['msg']))
            print('      key: %s' % v['key'])
            out_lines.append('VIOLATION property=%s replay=%s' % (self.pid, path))
        cov = dict(
            obligations=self.obligations,
            discharged=self.discharged - 0,
            checker_cmd='./verif check %s --tier %s' % (self.pid, self.tier),
            trusted_base=self.trusted,
            explanation=self.explanation,
            samples=self.samples[:40] or [{'note': 'no instance recorded'}],
            rules={k: dict(obligations=v[0], discharged=v[1]) for k, v in sorted(self.by_rule.items())},
            configurations=self.configs,
            technique=self.technique,
            undecided=self.undecided,
            known_findings_matched=[kk['key'] for kk, _ in self.known_hit],
            exhaustive=False,
        )
        cov.update(self.extra)
        level = self.level
        # a proof-level evidence file requires discharged == obligations
        if level == 'proof' and (real or self.known_hit or self.discharged != self.obligations):
            level = 'other'
        ev = dict(property_id=self.pid, tier=self.tier, seed=int(os.environ.get('VERIF_SEED', '0') or 0),
                  level=level, coverage=cov, assumptions=self.trusted + self.notes,
                  wall_s=round(wall, 2), violations=len(real))
        os.makedirs(EVIDENCE, exist_ok=True)
        tmp = os.path.join(EVIDENCE, '%s.json.tmp' % self.pid)
        json.dump(ev, open(tmp, 'w'), indent=1)
        os.replace(tmp, os.path.join(EVIDENCE, '%s.json' % self.pid))
        print('%s tier=%s: %d obligations, %d discharged, %d violations, %d known findings, %.1fs  [%s]' % (
            self.pid, self.tier, self.obligations, self.discharged, len(real), len(self.known_hit), wall,
            ', '.join('%s %d/%d' % (k, v[1], v[0]) for k, v in sorted(self.by_rule.items()))))
        for l in out_lines:
            print(l)
        return 1 if real else 0
