"""Fact loader and MIR utilities shared by all rules."""
import glob, json, os, sys
from functools import lru_cache

sys.path.insert(0, os.path.dirname(os.path.abspath(__file__)))
import pipeline

REPO_CRATES = ['aes', 'aria', 'belt_block', 'blowfish', 'camellia', 'cast5', 'cast6', 'des', 'gift_cipher', 'idea',
               'kuznyechik', 'magma', 'rc2', 'rc5', 'serpent', 'sm4', 'speck_cipher', 'threefish', 'twofish', 'xtea']


class Facts:
    """All facts of one configuration."""

    def __init__(self, config, directory=None):
        self.config = config
        self.dir = directory or pipeline.export(config)
        self.meta = json.load(open(os.path.join(self.dir, 'meta.json')))
        self._crates = {}
        self._mono = None
        self.roots_info = json.load(open(os.path.join(self.dir, 'roots.json')))

    # ---- per-crate facts
    def crate(self, name):
        if name not in self._crates:
            p = os.path.join(self.dir, 'crate-%s.json' % name)
            if not os.path.exists(p):
                raise FactError('no facts for crate %s in config %s' % (name, self.config))
            self._crates[name] = CrateFacts(json.load(open(p)))
        return self._crates[name]

    def crates(self):
        return [self.crate(c) for c in REPO_CRATES]

    # ---- whole program
    @property
    def mono(self):
        if self._mono is None:
            self._mono = Mono(json.load(open(os.path.join(self.dir, 'mono-verif_roots.json'))), self.roots_info)
        return self._mono


class FactError(Exception):
    pass


class CrateFacts:
    def __init__(self, d):
        self.d = d
        self.name = d['crate']
        self.types = d['types']
        self.fns = {f['path']: f for f in d['fns']}
        self.fn_list = d['fns']
        self.impls = d['impls']
        self.adts = {a['path']: a for a in d['adts']}
        self.aliases = d['aliases']
        self.statics = d['statics']
        self.allocs = d['allocs']
        self.consts = {c['path']: c for c in d['consts']}
        self.exports = d['exports']
        self.type_traits = d['type_traits']
        self.unsafe_blocks = d['unsafe_blocks']

    def ty(self, i):
        return self.types[i]


class Mono:
    def __init__(self, d, roots_info):
        self.d = d
        self.types = d['types']
        self.fns = d['fns']
        self.allocs = d['allocs']
        self.statics = {s['path']: s for s in d['statics']}
        self.roots = {r['name']: r['inst'] for r in d['roots']}
        self.roots_info = {r['root']: r for r in roots_info['roots']}
        self.cipher_types = roots_info['types']
        self._reach = {}

    def ty(self, i):
        return self.types[i]

    def fn(self, i):
        return self.fns[i]

    def callees(self, f):
        """(bb index, terminator, callee inst id or None) for calls and drops of one body"""
        out = []
        for bi, b in enumerate(f['mir']['bbs']):
            t = b['t']
            if t['k'] in ('call', 'tailcall'):
                out.append((bi, t, t.get('f', {}).get('inst')))
            elif t['k'] == 'drop' and 'inst' in t:
                out.append((bi, t, t['inst']))
        return out

    def reachable(self, inst):
        """set of instance ids reachable from inst (inclusive)"""
        if inst in self._reach:
            return self._reach[inst]
        seen = {inst}
        stack = [inst]
        while stack:
            i = stack.pop()
            for (_b, _t, c) in self.callees(self.fns[i]):
                if c is not None and c not in seen:
                    seen.add(c)
                    stack.append(c)
        self._reach[inst] = seen
        return seen

    def roots_of(self, op=None, crate=None):
        for name, info in self.roots_info.items():
            if op is not None and info['op'] != op:
                continue
            if crate is not None and info['crate'] != crate:
                continue
            if name not in self.roots:
                raise FactError('root %s was generated but is missing from the export' % name)
            yield name, info, self.roots[name]

    def find_call(self, inst, pred, depth=6):
        """breadth-first search from inst for call terminators satisfying pred(term); yields (caller inst, bb, term)"""
        seen = {inst}
        frontier = [inst]
        for _ in range(depth):
            nxt = []
            for i in frontier:
                for (bi, t, c) in self.callees(self.fns[i]):
                    if t['k'] != 'drop' and pred(t):
                        yield (i, bi, t)
                    if c is not None and c not in seen:
                        seen.add(c)
                        nxt.append(c)
            frontier = nxt


# ------------------------------------------------------------------ MIR helpers
def succs(t):
    k = t['k']
    if k == 'goto':
        return [t['t']]
    if k == 'sw':
        return [b for (_v, b) in t['v']] + [t['o']]
    if k in ('call', 'drop', 'assert', 'asm'):
        return [t['t']] if t.get('t') is not None else []
    return []


def cfg(body):
    bbs = body['bbs']
    return [succs(b['t']) for b in bbs]


def dominators(body):
    """immediate dominators (Cooper-Harvey-Kennedy) of the non-cleanup CFG; idom[entry]=entry, unreachable=None"""
    g = cfg(body)
    n = len(g)
    order = []
    seen = [False] * n
    stack = [(0, iter(g[0]))]
    seen[0] = True
    while stack:
        v, it = stack[-1]
        adv = False
        for w in it:
            if not seen[w]:
                seen[w] = True
                stack.append((w, iter(g[w])))
                adv = True
                break
        if not adv:
            order.append(v)
            stack.pop()
    rpo = order[::-1]
    num = {v: i for i, v in enumerate(rpo)}
    preds = [[] for _ in range(n)]
    for v in rpo:
        for w in g[v]:
            preds[w].append(v)
    idom = [None] * n
    idom[0] = 0

    def inter(a, b):
        while a != b:
            while num[a] > num[b]:
                a = idom[a]
            while num[b] > num[a]:
                b = idom[b]
        return a

    ch = True
    while ch:
        ch = False
        for v in rpo[1:]:
            ps = [p for p in preds[v] if idom[p] is not None]
            if not ps:
                continue
            nd = ps[0]
            for p in ps[1:]:
                nd = inter(nd, p)
            if idom[v] != nd:
                idom[v] = nd
                ch = True
    return idom


def dominates(idom, a, b):
    """does block a dominate block b"""
    if idom[b] is None:
        return True  # unreachable code is vacuously dominated
    while True:
        if a == b:
            return True
        if b == 0 or idom[b] is None:
            return False
        b = idom[b]


def reachable_blocks(body, start=0, skip_edges=()):
    g = cfg(body)
    seen = {start}
    st = [start]
    while st:
        v = st.pop()
        for w in g[v]:
            if (v, w) in skip_edges:
                continue
            if w not in seen:
                seen.add(w)
                st.append(w)
    return seen


def return_blocks(body):
    return [i for i, b in enumerate(body['bbs']) if b['t']['k'] == 'ret']


def operands_of_rvalue(rv):
    k = rv[0]
    if k in ('use',):
        return [rv[1]]
    if k == 'rep':
        return [rv[1]]
    if k == 'cast':
        return [rv[2]]
    if k == 'bin':
        return [rv[2], rv[3]]
    if k == 'un':
        return [rv[2]]
    if k == 'agg':
        return list(rv[2])
    return []


def places_read_by_rvalue(rv):
    """places read (copy/move/ref/raw/discr) by an rvalue"""
    out = []
    k = rv[0]
    if k in ('ref', 'raw'):
        out.append(rv[2])
    elif k == 'discr':
        out.append(rv[1])
    for o in operands_of_rvalue(rv):
        if o[0] in ('cp', 'mv'):
            out.append(o[1])
    return out


def term_operands(t):
    k = t['k']
    out = []
    if k == 'sw':
        out.append(t['op'])
    elif k in ('call', 'tailcall'):
        out += t['a']
        if 'fop' in t:
            out.append(t['fop'])
    elif k == 'assert':
        out.append(t['c'])
        for key in ('len', 'index', 'a', 'b', 'required', 'found'):
            if key in t['m'] and isinstance(t['m'][key], list):
                out.append(t['m'][key])
    return out


def const_of(op):
    if op[0] == 'k':
        return op[1]
    return None


def place_str(p):
    s = '_%d' % p[0]
    for e in p[1:]:
        if e == '*':
            s = '(*%s)' % s
        elif e[0] == 'f':
            s += '.%s' % (e[3] if len(e) > 3 else e[1])
        elif e[0] == 'i':
            s += '[_%d]' % e[1]
        elif e[0] == 'c':
            s += '[%s%d]' % ('-' if e[3] else '', e[1])
        elif e[0] == 's':
            s += '[%d..%s%d]' % (e[1], '-' if e[3] else '', e[2])
        elif e[0] == 'd':
            s += ' as %s' % e[2]
    return s


def op_str(o):
    if o[0] in ('cp', 'mv'):
        return ('move ' if o[0] == 'mv' else '') + place_str(o[1])
    if o[0] == 'k':
        c = o[1]
        if 'v' in c:
            return 'const %s' % c.get('sv', c['v'])
        if 'fn' in c:
            return 'fn %s' % (c['fn'].get('path') or c['fn']['decl'])
        return 'const ?'
    return str(o)


def callee_name(t):
    f = t.get('f')
    if not f:
        return '<indirect>'
    return f.get('path') or f['decl']


def fn_loc(f):
    return f.get('span', '?')


# ------------------------------------------------------------------ pretty type names
import re as _re

_UT = 'typenum::uint::UTerm'


def pretty(s):
    """collapse typenum binary encodings (UInt<UInt<UTerm, B1>, B0> -> U2) for keys and messages"""
    if 'typenum::' not in s:
        return s
    pat = _re.compile(r'typenum::uint::UInt<(U\d+), typenum::bit::B([01])>')
    s = s.replace(_UT, 'U0')
    while True:
        s2 = pat.sub(lambda m: 'U%d' % (int(m.group(1)[1:]) * 2 + int(m.group(2))), s)
        if s2 == s:
            break
        s = s2
    return s
