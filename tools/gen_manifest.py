#!/usr/bin/env python3
"""Write MANIFEST.json from analysis/checks.py REGISTRY + the texts in tools/manifest_texts.json."""
import json, os, sys
sys.path.insert(0, '/verif/analysis')
import checks
T = json.load(open('/verif/tools/manifest_texts.json'))
props = [json.loads(l)['id'] for l in open('/verif/properties.jsonl')]
m = dict(version=1,
         setup_cmd='cd /verif && ./verif setup',
         hooks=dict(guard='block_ciphers_verif', enable='none needed: nothing is instrumented or executed; checks analyse /repo as built by cargo with the real features/cfgs',
                    baseline_off_cmd='cd /repo && cargo test --workspace --no-fail-fast --offline', source_commits=[], add_only=True),
         engines=[
             dict(name='driver', path='driver/', serves_properties=sorted(checks.REGISTRY), kind_free_text='rustc_private fact exporter (ADTs, impls, statics, resolved MIR, whole-program monomorphic MIR)'),
             dict(name='analysis', path='analysis/', serves_properties=sorted(checks.REGISTRY), kind_free_text='python static analyses over the exported facts: dataflow, dominators, effect/ownership rules, abstract interpretation'),
         ],
         checks=[], not_applicable=[], notes=T.get('notes', ''))
for pid in props:
    if pid in checks.REGISTRY:
        r = checks.REGISTRY[pid]
        t = T['checks'][pid]
        m['checks'].append(dict(property_id=pid, quick_cmd='./verif check %s --tier quick' % pid,
                                thorough_cmd='./verif check %s --tier thorough' % pid,
                                evidence_file='/verif/evidence/%s.json' % pid,
                                replay_cmd_template='cat {path}', engine='analysis/%s.py' % r['module'],
                                level_claimed=dict(category=r['level'], text=t['text'], design_ref=t['design_ref']),
                                level_note=t['note'], technique=r['technique']))
    else:
        m['not_applicable'].append(dict(property_id=pid, reason=T['not_applicable'].get(pid, 'not claimed in this revision: the static engine that decides it (DESIGN.md §5 %s) is not finished; it is not replaced by another technique' % pid)))
json.dump(m, open('/verif/MANIFEST.json', 'w'), indent=1)
print('MANIFEST: %d checks, %d not applicable' % (len(m['checks']), len(m['not_applicable'])))
