"""The 64 DES weak, semi-weak and possibly-weak keys of NIST SP 800-67 (Rev. 2, section 3.3.2), generated from their
characterisation -- independent of /repo's table.

A DES key is weak / semi-weak / possibly weak exactly when each of the two 28-bit halves C0, D0 of the key schedule
is one of the four patterns that are invariant (up to the two alternating patterns) under the schedule's rotations:
all zeros, all ones, 0101.., 1010..  In terms of key bytes (with odd parity) this is:
   bytes 0..3 in {01, 1F, E0, FE} with XOR of the four "classes" equal to zero, and byte i+4 = phi(byte i),
   phi: 01->01, 1F->0E, E0->F1, FE->FE.
(The four byte values encode the pair (C-bit pattern, D-bit pattern) contributed by that byte.)
"""


def nist_weak_keys():
    vals = [0x01, 0x1F, 0xE0, 0xFE]
    cls = {0x01: 0, 0x1F: 1, 0xE0: 2, 0xFE: 3}
    phi = {0x01: 0x01, 0x1F: 0x0E, 0xE0: 0xF1, 0xFE: 0xFE}
    out = set()
    for a in vals:
        for b in vals:
            for c in vals:
                for d in vals:
                    if cls[a] ^ cls[b] ^ cls[c] ^ cls[d] == 0:
                        out.add((a, b, c, d, phi[a], phi[b], phi[c], phi[d]))
    assert len(out) == 64
    return out
