"""C15 -- results depend only on key and input (effect analysis).

If nothing reachable from the public API can write anything but its own frame and
the designated output, and a cipher value cannot change behind `&self`, then no call
history and no thread interleaving can influence a result.  Rules (all static):

 E1  every rooted cipher type, and everything reachable through its fields and
     through the fields / pointees of every backend type an entry point runs on, is
     `Freeze` (no UnsafeCell/Cell/RefCell/atomics) and holds no `*mut` / `&mut`.
 E2  every `static` mentioned by any function reachable from any public root is
     immutable and Freeze -- except the cpufeatures detection cache, which may only
     be mentioned by functions that the `cpufeatures::new!` expansion itself generated;
     no `static mut`, no thread-locals, no foreign statics, no foreign functions, no
     inline asm outside core's cpuid/xgetbv.
 E3  in /repo code every call of an `unsafe fn` belongs to a vetted family, there is
     no store through a raw pointer, and every memory-writing intrinsic receives a
     pointer whose origin (interprocedural def-use slice) is the InOut *out* pointer,
     a frame-local, or a `&mut` parameter of a public function -- never `&self`, the
     InOut *in* pointer, a `&` parameter or a static.
 E5  no `unsafe impl Send/Sync` in /repo; every rooted type is `Send + Sync`.
"""
import re
from facts import *

CPUFEATURES_MACRO = 'Macro(Bang, "cpufeatures::new")'

# unsafe callees that are pure value functions (no memory effect)
PURE_UNSAFE = [
    r'^core::core_arch::',            # SIMD / AES value intrinsics (load/store handled separately)
    r'^core::ptr::(const_ptr|mut_ptr)::<impl \*(const|mut) T>::(add|offset|sub|cast|byte_add)$',
    r'^core::mem::zeroed$',
    r"^core::fmt::Arguments::<'a>::new$",      # format_args! expansion
    r'^core::mem::transmute$',
    r'^core::intrinsics::transmute$',
    r'^core::hint::unreachable_unchecked$',
    r'^core::slice::<impl \[T\]>::get_unchecked$',
]
WRITE_INTRINSICS = re.compile(r'^core::core_arch::.*::(_mm_storeu?_si128|_mm_storeu?_p[sd]|vst1q?_[a-z0-9]+(_x[234])?)$')
READ_INTRINSICS = re.compile(r'^core::core_arch::.*::(_mm_loadu?_si128|_mm_lddqu_si128|vld1q?_[a-z0-9]+(_x[234])?)$')
DROP_ONLY = [r'^zeroize::zeroize_flat_type$', r'^core::mem::manually_drop::ManuallyDrop::<T>::drop$']
PTR_PASS = re.compile(
    r'^(core::ptr::(const_ptr|mut_ptr)::<impl \*(const|mut) T>::(add|offset|sub|cast|cast_mut|cast_const|byte_add|wrapping_add)'
    r'|core::slice::<impl \[T\]>::(as_ptr|as_mut_ptr)'
    r'|core::array::<impl \[T; N\]>::(as_slice|as_mut_slice)'
    r'|hybrid_array::Array::<T, U>::(as_ptr|as_mut_ptr|as_slice|as_mut_slice)'
    r'|<hybrid_array::Array<T, U> as core::ops::deref::Deref(Mut)?>::deref(_mut)?'
    r'|<hybrid_array::Array<T, U> as core::convert::As(Ref|Mut)<\[T\]>>::as_(ref|mut)'
    r'|<\[T; N\] as core::ops::index::Index(Mut)?<I>>::index(_mut)?'
    r'|core::ptr::non_null::NonNull::<T>::as_ptr'
    r'|<.+ as core::ops::index::Index(Mut)?<I>>::index(_mut)?'
    r'|core::slice::raw::from_raw_parts(_mut)?'
    r')$')


def closure_types(m, t, seen, through_ptr=True):
    """all types reachable through fields (and pointees)"""
    if t in seen:
        return
    seen.add(t)
    d = m.ty(t)
    k = d['k']
    if k == 'adt':
        for v in d['variants']:
            for f in v['f']:
                closure_types(m, f['t'], seen, through_ptr)
    elif k in ('array', 'slice'):
        closure_types(m, d['e'], seen, through_ptr)
    elif k in ('tuple', 'closure'):
        for f in d['f']:
            closure_types(m, f, seen, through_ptr)
    elif k in ('ref', 'ptr') and through_ptr:
        closure_types(m, d['t'], seen, through_ptr)


def type_by_name(m, s):
    for i, d in enumerate(m.types):
        if d['s'] == s:
            return i
    return None


def entry_backends(m):
    """instances implementing BlockCipher{Enc,Dec}Backend::{encrypt,decrypt}_{block,par_blocks,...} in /repo crates"""
    out = []
    for f in m.fns:
        if f['crate'] in REPO_CRATES and f.get('impl_trait') in (
                'cipher::block::backends::BlockCipherEncBackend', 'cipher::block::backends::BlockCipherDecBackend'):
            out.append(f)
    return out


class Origins:
    """interprocedural origin classes of pointer-like locals"""

    def __init__(self, m, root_ids):
        self.m = m
        self.callers = {}
        for f in m.fns:
            for (bi, t, c) in m.callees(f):
                if c is not None and t['k'] == 'call':
                    self.callers.setdefault(c, []).append((f['id'], bi))
        self.memo = {}
        self.public_roots = root_ids

    def local_origin(self, fid, local, depth=0, stack=()):
        key = (fid, local)
        if key in self.memo:
            return self.memo[key]
        if key in stack or depth > 40:
            return frozenset()
        stack = stack + (key,)
        f = self.m.fn(fid)
        body = f['mir']
        res = set()
        # parameter?
        if 1 <= local <= body['argc']:
            td = self.m.ty(body['locals'][local])
            if fid in self.public_roots or not self.callers.get(fid):
                if td['k'] == 'ref' and td['mut']:
                    res.add('pub-mut-param')
                elif td['k'] == 'ref':
                    res.add('pub-shared-param')
                elif td['k'] == 'adt' and td['path'] in ('inout::inout::InOut', 'inout::inout_buf::InOutBuf'):
                    res.add('inout')
                else:
                    res.add('pub-param:%s' % td['k'])
            else:
                if td['k'] == 'adt' and td['path'] in ('inout::inout::InOut', 'inout::inout_buf::InOutBuf'):
                    res.add('inout')
                elif f.get('name') in ('encrypt_block', 'decrypt_block', 'encrypt_par_blocks', 'decrypt_par_blocks',
                                       'encrypt_with_backend', 'decrypt_with_backend') and local == 1:
                    res.add('self')
                else:
                    for (cf, cb) in self.callers[fid]:
                        t = self.m.fn(cf)['mir']['bbs'][cb]['t']
                        a = t['a'][local - 1] if local - 1 < len(t['a']) else None
                        if a is None:
                            res.add('unknown:arity')
                        elif a[0] in ('cp', 'mv'):
                            res |= self.place_origin(cf, a[1], depth + 1, stack)
                        else:
                            res.add('const')
        # definitions
        for b in body['bbs']:
            for s in b['s']:
                if s[0] == '=' and s[1][0] == local and len(s[1]) == 1:
                    res |= self.rvalue_origin(fid, s[2], depth, stack)
            t = b['t']
            if t['k'] == 'call' and t['d'][0] == local and len(t['d']) == 1:
                res |= self.call_origin(fid, t, depth, stack)
        if not res:
            res.add('unknown:undefined')
        out = frozenset(res)
        self.memo[key] = out
        return out

    def place_origin(self, fid, place, depth, stack):
        body = self.m.fn(fid)['mir']
        base = place[0]
        o = self.local_origin(fid, base, depth + 1, stack)
        # a field projection out of the (in, out) tuple returned by into_raw
        if 'into_raw' in o and len(place) >= 2 and place[1] != '*' and place[1][0] == 'f':
            return frozenset(['in' if place[1][1] == 0 else 'out'])
        if '*' not in place[1:] and base > body['argc'] and not (o - {'unknown:undefined'}):
            return frozenset(['local'])
        return o

    def rvalue_origin(self, fid, rv, depth, stack):
        body = self.m.fn(fid)['mir']
        k = rv[0]
        if k in ('ref', 'raw'):
            pl = rv[2]
            if '*' not in pl[1:]:
                # address of (part of) a frame local / by-value parameter
                if 1 <= pl[0] <= body['argc']:
                    td = self.m.ty(body['locals'][pl[0]])
                    if td['k'] == 'adt' and td['path'].startswith('inout::'):
                        return frozenset(['inout'])
                return frozenset(['local'])
            return self.place_origin(fid, pl[:1], depth, stack) if pl[1] == '*' else self.place_origin(fid, pl, depth, stack)
        if k == 'use':
            o = rv[1]
            if o[0] in ('cp', 'mv'):
                return self.place_origin(fid, o[1], depth, stack)
            c = o[1]
            if 'ptr' in c:
                a = self.m.allocs.get(c['ptr'], {})
                if a.get('k') == 'static':
                    return frozenset(['static:' + a['path']])
                return frozenset(['const-alloc'])
            return frozenset(['const'])
        if k == 'cast':
            o = rv[2]
            if o[0] in ('cp', 'mv'):
                return self.place_origin(fid, o[1], depth, stack)
            return frozenset(['const'])
        if k == 'agg':
            res = set()
            for o in rv[2]:
                if o[0] in ('cp', 'mv'):
                    res |= self.place_origin(fid, o[1], depth, stack)
            return frozenset(res or ['const'])
        if k in ('bin',):
            o = rv[2]
            if o[0] in ('cp', 'mv'):
                return self.place_origin(fid, o[1], depth, stack)
        return frozenset(['value'])

    def call_origin(self, fid, t, depth, stack):
        name = callee_name(t)

        def arg(i):
            if i < len(t['a']) and t['a'][i][0] in ('cp', 'mv'):
                return self.place_origin(fid, t['a'][i][1], depth, stack)
            return frozenset(['const'])

        if name.startswith('inout::inout::InOut::') or name.startswith("<inout::inout::InOut<'inp, 'out, T> as "):
            if name.endswith('::into_raw'):
                return frozenset(['into_raw'])
            if name.endswith('::get_out'):
                return frozenset(['out'])
            if name.endswith('::get_in'):
                return frozenset(['in'])
            if name.endswith(('::get', '::reborrow', '::into_buf', '::from')) or ' as core::convert::From' in name:
                o = arg(0)
                if 'pub-mut-param' in o or 'local' in o or 'inout' in o:
                    return frozenset(['inout'])
                return o
            return frozenset(['unknown:inout-method:' + name.rsplit('::', 1)[-1]])
        if PTR_PASS.match(name):
            return arg(0)
        f = t.get('f', {})
        if f.get('inst') is not None and f.get('crate') in REPO_CRATES:
            # a repo helper returning a pointer: conservative union of its pointer arguments
            res = set()
            for i in range(len(t['a'])):
                res |= arg(i)
            return frozenset(res or ['value'])
        return frozenset(['value'])


def run(chk, facts_by_config):
    chk.trusted += ['rustc Freeze/auto-trait computation', 'cpufeatures 0.2.17 detection (writes its cache with a value that depends on CPUID only)',
                    'cipher/inout: InOut::into_raw().1 / get_out() is the designated output']
    pure = [re.compile(p) for p in PURE_UNSAFE]
    droponly = [re.compile(p) for p in DROP_ONLY]
    for cfgname, F in facts_by_config.items():
        chk.configs.append(cfgname)
        m = F.mono
        root_ids = set(m.roots.values())
        reach = set()
        for r in root_ids:
            reach |= m.reachable(r)
        # ---------------- E1
        n_e1 = 0
        checked_types = set()
        roots_types = []
        for ct in m.cipher_types:
            tid = type_by_name(m, ct['ty'])
            if tid is None:
                chk.fail_closed('E1-freeze', '%s|%s' % (cfgname, pretty(ct['ty'])), 'cipher type missing from the type table')
                continue
            roots_types.append((pretty(ct['ty']), tid))
        for f in entry_backends(m):
            if f['id'] in reach and f['mir']['argc'] >= 1:
                st = m.ty(f['mir']['locals'][1])
                if st['k'] == 'ref':
                    roots_types.append((pretty(m.ty(st['t'])['s']), st['t']))
        for (name, tid) in roots_types:
            if tid in checked_types:
                continue
            checked_types.add(tid)
            seen = set()
            closure_types(m, tid, seen)
            bad = []
            for t in seen:
                d = m.ty(t)
                if d['k'] in ('ref',) and d['mut']:
                    bad.append('holds `%s`' % pretty(d['s']))
                elif d['k'] == 'ptr':
                    bad.append('holds raw pointer `%s`' % pretty(d['s']))
                elif d['k'] in ('fnptr', 'dyn', 'foreign'):
                    bad.append('holds `%s`' % pretty(d['s']))
                elif d.get('unsafe_cell'):
                    bad.append('contains `%s` (interior mutability)' % pretty(d['s']))
                elif d['k'] not in ('ref',) and d.get('freeze') is False:
                    bad.append('`%s` is not Freeze' % pretty(d['s']))
            n_e1 += 1
            if bad:
                chk.violation('E1-freeze', '%s|%s|E1-freeze' % (cfgname, name),
                              '%s can change behind `&self`: %s' % (name, '; '.join(sorted(set(bad))[:4])))
            else:
                chk.ok('E1-freeze', '%s|%s' % (cfgname, name), dict(type=name, types_in_closure=len(seen)))
        chk.floor('E1-freeze', n_e1, 'E1.' + cfgname)
        # ---------------- E2 statics / foreign / asm
        def statics_of_alloc(a, seen):
            if a in seen:
                return set()
            seen.add(a)
            d = m.allocs.get(a)
            if d is None:
                return set()
            if d['k'] == 'static':
                return {d['path']}
            res = set()
            for (_off, r) in d.get('ptrs', []):
                res |= statics_of_alloc(r, seen)
            return res

        n_e2 = 0
        for fid in sorted(reach):
            f = m.fn(fid)
            body = f['mir']
            mentioned = set()

            def scan_op(o):
                if o[0] == 'k':
                    c = o[1]
                    for key in ('ptr', 'alloc'):
                        if key in c:
                            mentioned.update(statics_of_alloc(c[key], set()))

            for b in body['bbs']:
                for s in b['s']:
                    if s[0] == '=':
                        for o in operands_of_rvalue(s[2]):
                            scan_op(o)
                        if s[2][0] == 'tls':
                            chk.violation('E2-statics', '%s|%s|thread-local|%s' % (cfgname, pretty(f['full']), s[2][1]),
                                          '%s reads thread-local %s' % (pretty(f['full']), s[2][1]))
                t = b['t']
                for o in term_operands(t):
                    scan_op(o)
                if t['k'] == 'asm' and not f['path'].startswith('core::core_arch::'):
                    chk.violation('E2-statics', '%s|%s|inline-asm' % (cfgname, pretty(f['full'])),
                                  'inline asm in %s (%s)' % (pretty(f['full']), fn_loc(f)))
                if t['k'] == 'call' and 'f' in t and t['f'].get('foreign') and not t['f'].get('intrinsic') \
                        and not (f['path'].startswith('core::core_arch::') and callee_name(t).startswith('core::core_arch::')) \
                        and not f['path'].startswith('core::panicking::') and f['crate'] != 'cpufeatures':
                    chk.violation('E2-statics', '%s|%s|foreign-call|%s' % (cfgname, pretty(f['full']), callee_name(t)),
                                  '%s calls foreign function %s' % (pretty(f['full']), callee_name(t)))
            for sp in sorted(mentioned):
                st = m.statics.get(sp)
                n_e2 += 1
                key = '%s|%s|E2-statics|%s' % (cfgname, pretty(f['full']), sp)
                if st is None:
                    chk.fail_closed('E2-statics', key, 'static %s has no fact' % sp)
                elif st['mutbl'] or st['thread_local'] or st['foreign']:
                    chk.violation('E2-statics', key, '%s (%s) uses %s static %s' % (
                        pretty(f['full']), fn_loc(f), 'mutable' if st['mutbl'] else 'thread-local/foreign', sp))
                elif not st['freeze']:
                    ok = CPUFEATURES_MACRO in st['expn'] and CPUFEATURES_MACRO in f.get('expn', []) \
                        and m.ty(st['ty'])['s'].startswith('core::sync::atomic::Atomic')
                    if ok:
                        chk.ok('E2-statics', key, dict(fn=pretty(f['full']), static=sp, why='cpufeatures detection cache, '
                               'mentioned only by code generated by cpufeatures::new!'))
                    else:
                        chk.violation('E2-statics', key,
                                      '%s (%s) touches interior-mutable static %s (only the cpufeatures cache, from its own '
                                      'macro-generated accessors, is allowed)' % (pretty(f['full']), fn_loc(f), sp))
                else:
                    chk.ok('E2-statics', key, dict(fn=pretty(f['full']), static=sp, why='immutable, Freeze'))
        chk.floor('E2-statics', n_e2, 'E2.' + cfgname)
        # ---------------- E3 unsafe operations in /repo code
        org = Origins(m, root_ids)
        n_e3 = 0
        for fid in sorted(reach):
            f = m.fn(fid)
            if f['crate'] not in REPO_CRATES:
                continue
            body = f['mir']
            fname = pretty(f['full'])
            for bi, b in enumerate(body['bbs']):
                for s in b['s']:
                    if s[0] in ('=', 'setdiscr') and '*' in s[1][1:]:
                        base_t = m.ty(body['locals'][s[1][0]])
                        if base_t['k'] == 'ptr':
                            n_e3 += 1
                            o = org.local_origin(fid, s[1][0])
                            if o <= {'local', 'out', 'pub-mut-param', 'inout'}:
                                chk.ok('E3-stores', None)
                            else:
                                chk.violation('E3-stores', '%s|%s|raw-store|%s' % (cfgname, fname, ','.join(sorted(o))),
                                              '%s (%s) stores through a raw pointer of origin {%s}' % (fname, fn_loc(f), ', '.join(sorted(o))))
                    if s[0] == 'copy_nonoverlapping':
                        n_e3 += 1
                        chk.violation('E3-stores', '%s|%s|copy_nonoverlapping' % (cfgname, fname),
                                      '%s uses copy_nonoverlapping (unvetted raw write)' % fname)
                t = b['t']
                if t['k'] != 'call' or 'f' not in t or not t['f'].get('unsafe'):
                    continue
                name = callee_name(t)
                if t.get('fx') and any('format_args' in x or 'write' in x for x in t['fx']) and 'fmt::Arguments' in name:
                    continue
                n_e3 += 1
                key = '%s|%s|E3|%s' % (cfgname, fname, pretty(name))
                if WRITE_INTRINSICS.match(name):
                    a = t['a'][0]
                    o = org.place_origin(fid, a[1], 0, ()) if a[0] in ('cp', 'mv') else frozenset(['const'])
                    if o and o <= {'local', 'out', 'pub-mut-param', 'inout'}:
                        chk.ok('E3-stores', key, dict(fn=fname, intrinsic=name.rsplit('::', 1)[-1], pointer_origin=sorted(o)))
                    else:
                        chk.violation('E3-stores', key + '|' + ','.join(sorted(o)),
                                      '%s (%s:%s) writes through %s with pointer origin {%s}; only the InOut out pointer, a local '
                                      'or a public `&mut` parameter may be written' % (fname, fn_loc(f), t['l'],
                                                                                       name.rsplit('::', 1)[-1], ', '.join(sorted(o))))
                elif any(p.match(name) for p in pure):
                    chk.ok('E3-unsafe-callee', key)
                elif name in ('core::slice::raw::from_raw_parts_mut', 'core::slice::raw::from_raw_parts'):
                    a = t['a'][0]
                    o = org.place_origin(fid, a[1], 0, ()) if a[0] in ('cp', 'mv') else frozenset(['const'])
                    if o and o <= {'local'}:
                        chk.ok('E3-unsafe-callee', key, dict(fn=fname, callee=name, pointer_origin=sorted(o)))
                    else:
                        chk.violation('E3-unsafe-callee', key, '%s (%s:%s) builds a slice from a raw pointer of origin {%s} '
                                      '(only a frame-local buffer is vetted)' % (fname, fn_loc(f), t['l'], ', '.join(sorted(o))))
                elif any(p.match(name) for p in droponly):
                    if f.get('impl_trait') == 'core::ops::drop::Drop':
                        chk.ok('E3-unsafe-callee', key)
                    else:
                        chk.violation('E3-unsafe-callee', key, '%s (%s) calls %s outside a Drop impl' % (fname, fn_loc(f), name))
                elif t['f'].get('crate') in REPO_CRATES or t['f'].get('decl_crate') in REPO_CRATES:
                    chk.ok('E3-unsafe-callee', key)   # analysed as its own body
                elif name.startswith('inout::') or name.startswith('aes::') or name.startswith('cpufeatures::'):
                    chk.ok('E3-unsafe-callee', key)
                else:
                    chk.violation('E3-unsafe-callee', key,
                                  '%s (%s:%s) calls unsafe function %s which is not in the vetted families '
                                  '(pure SIMD intrinsics, pointer arithmetic, zeroed, drop-only wipes)' % (fname, fn_loc(f), t['l'], name))
        chk.floor('E3', n_e3, 'E3.' + cfgname)
        # ---------------- E5 Send/Sync
        for c in F.crates():
            for im in c.impls:
                if im.get('trait') in ('core::marker::Send', 'core::marker::Sync') and not im.get('negative'):
                    chk.violation('E5-send-sync', '%s|%s|unsafe-impl|%s' % (cfgname, pretty(im['self_s']), im['trait']),
                                  'manual `unsafe impl %s for %s` at %s' % (im['trait'].rsplit('::', 1)[-1], pretty(im['self_s']), im['span']))
        n5 = 0
        for ct in m.cipher_types:
            n5 += 1
            miss = [x for x in ('core::marker::Send', 'core::marker::Sync') if x not in ct['traits']]
            if miss:
                chk.violation('E5-send-sync', '%s|%s|E5-send-sync' % (cfgname, pretty(ct['ty'])),
                              '%s is not %s' % (pretty(ct['ty']), ' + '.join(x.rsplit('::', 1)[-1] for x in miss)))
            else:
                chk.ok('E5-send-sync', '%s|%s' % (cfgname, pretty(ct['ty'])), dict(type=pretty(ct['ty']), send=True, sync=True))
        chk.floor('E5-send-sync', n5, 'E5.' + cfgname)
