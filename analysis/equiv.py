"""Engine L3 drivers: equivalence proofs by Herbrand terms (value numbering + cancellation)."""
import time
from facts import *
from engine import *
from values import *
import values
import terms as T

ENC = 'cipher::block::backends::BlockCipherEncBackend'
DEC = 'cipher::block::backends::BlockCipherDecBackend'


class TermMode:
    def __enter__(self):
        T.ENABLED = True
        T.reset()
        T.TUPLE_INVERSES.clear()
        import bitform
        bitform.reset()
        values.init_consts()
        import engine
        engine._INTERPS.clear()
        return self

    def __exit__(self, *a):
        T.ENABLED = False
        values.init_consts()
        import engine
        engine._INTERPS.clear()


def fresh_terms():
    """start a new term universe inside TermMode (bounds memory between independent proofs)"""
    import engine, bitform
    T.reset()
    bitform.reset()
    values.init_consts()
    engine._INTERPS.clear()


def backend_fn(m, ty_s, trait, name):
    for f in m.fns:
        if f.get('impl_trait') == trait and f.get('name') == name and f['crate'] in REPO_CRATES:
            t = m.ty(f['mir']['locals'][1])
            if t['k'] == 'ref' and m.ty(t['t'])['s'] == ty_s:
                return f
    return None


def inout_arg(I, st, f, in_val, tag):
    """build the InOut argument of a backend fn: in buffer holds in_val, out buffer unknown; returns (arg, out_obj)"""
    body = f['mir']
    t = body['locals'][2]
    d = I.types[t]
    assert d['k'] == 'adt' and d['path'] == 'inout::inout::InOut', d['s']
    fs = d['variants'][0]['f']
    vals = []
    out_obj = None
    for fd in fs:
        fdd = I.types[fd['t']]
        if fdd['k'] == 'ptr':
            I.fresh += 1
            obj = ('P', '%s.%s' % (tag, fd['name']), I.fresh)
            if fd['name'].startswith('in'):
                st.mem[obj] = in_val
            else:
                st.mem[obj] = I.top(fdd['t'], None)
                out_obj = obj
            vals.append(Ptr(obj, (), None, None, None, None, fdd['mut']))
        else:
            vals.append(I.zst(fd['t']))
    return Struct(t, vals), out_obj


def sym_block(I, block_ty, prefix):
    return I.top(block_ty, prefix)


def block_bytes(I, v, ty):
    from ops import flatten
    return flatten(I, v, ty)


def wrapped_backend_fn(m, ty_s, trait, name):
    """a backend impl on a wrapper struct whose only non-ZST field is `&Cipher` (aes::soft::Aes128BackEnc<'_>)"""
    for f in m.fns:
        if f.get('impl_trait') == trait and f.get('name') == name and f['crate'] in REPO_CRATES:
            t = m.ty(f['mir']['locals'][1])
            if t['k'] != 'ref':
                continue
            w = m.ty(t['t'])
            if w['k'] != 'adt' or w.get('adt_kind') == 'union' or len(w.get('variants', [])) != 1:
                continue
            nz = [fd for fd in w['variants'][0]['f'] if m.ty(fd['t']).get('size') != 0]
            if len(nz) == 1 and m.ty(nz[0]['t'])['k'] == 'ref':
                inner_s = m.ty(m.ty(nz[0]['t'])['t'])['s']
                if inner_s == ty_s or inner_s in sole_field_types(m, ty_s):
                    return f
    return None


def sole_field_types(m, ty_s):
    """types T such that the cipher type is (a chain of single-field structs around) one value of type T: a backend wrapper
    around `&T` then necessarily borrows that one field, for encryption and for decryption alike"""
    out = []
    cur = None
    for i, d in enumerate(m.types):
        if d.get('s') == ty_s:
            cur = d
            break
    for _ in range(4):
        if cur is None or cur.get('k') != 'adt' or cur.get('adt_kind') == 'union' or len(cur.get('variants', [])) != 1:
            break
        nz = [fd for fd in cur['variants'][0]['f'] if m.ty(fd['t']).get('size') != 0]
        if len(nz) != 1:
            break
        cur = m.ty(nz[0]['t'])
        out.append(cur['s'])
    return out


def roundtrip(m, ty_s, self_val_fn, first='enc'):
    """prove second(first(x)) = x on one symbolic instance. Returns (ok, detail)"""
    n1 = (ENC, 'encrypt_block') if first == 'enc' else (DEC, 'decrypt_block')
    n2 = (DEC, 'decrypt_block') if first == 'enc' else (ENC, 'encrypt_block')
    f1 = backend_fn(m, ty_s, *n1)
    f2 = backend_fn(m, ty_s, *n2)
    wrapped = False
    if f1 is None or f2 is None:
        f1 = wrapped_backend_fn(m, ty_s, *n1)
        f2 = wrapped_backend_fn(m, ty_s, *n2)
        wrapped = True
    if f1 is None or f2 is None:
        return None, 'no backend impl on the cipher type itself'
    I = mk_interp(m, 20_000_000)
    st = State()
    I.entry_state = st
    I.fresh += 1
    sobj = ('P', 'self', I.fresh)
    if not wrapped:
        self_ty = m.ty(f1['mir']['locals'][1])['t']
        st.mem[sobj] = self_val_fn(I, self_ty)
        selfp = selfp2 = Ptr(sobj, (), None, None, None, None, False)
    else:
        ps = []
        for f in (f1, f2):
            wty = m.ty(f['mir']['locals'][1])['t']
            wd = m.ty(wty)
            fields = []
            for fd in wd['variants'][0]['f']:
                if m.ty(fd['t']).get('size') == 0:
                    fields.append(I.zst(fd['t']))
                else:
                    cty = m.ty(fd['t'])['t']
                    if sobj not in st.mem:
                        st.mem[sobj] = self_val_fn(I, cty)
                    fields.append(Ptr(sobj, (), None, None, None, None, False))
            I.fresh += 1
            wobj = ('P', 'backend%d' % len(ps), I.fresh)
            st.mem[wobj] = Struct(wty, fields)
            ps.append(Ptr(wobj, (), None, None, None, None, False))
        selfp, selfp2 = ps
    inout_ty = m.ty(f1['mir']['locals'][2])
    block_ty = [I.types[fd['t']]['t'] for fd in inout_ty['variants'][0]['f'] if I.types[fd['t']]['k'] == 'ptr'][0]
    x = sym_block(I, block_ty, 'x')
    I.entry_state = None
    a1, out1 = inout_arg(I, st, f1, x, 'a')
    status, r = run(I, f1['id'], [selfp, a1], st)
    if status != 'ok':
        return False, '%s: %s %s' % (first, status, str(r)[:300])
    y = st.mem[out1]
    a2, out2 = inout_arg(I, st, f2, y, 'b')
    status, r = run(I, f2['id'], [selfp2, a2], st)
    if status != 'ok':
        return False, 'second direction: %s %s' % (status, str(r)[:300])
    z = st.mem[out2]
    xb, zb = block_bytes(I, x, block_ty), block_bytes(I, z, block_ty)
    if xb is None or zb is None:
        return False, 'block is not byte-flattenable'
    bad = []
    canon = (lambda t: t)
    if getattr(I, 'bitcanon', False):
        import bitform
        canon = bitform.recanon
    for i, (a, b) in enumerate(zip(xb, zb)):
        if a.term is None or b.term is None or canon(b.term) is not a.term:
            bad.append((i, T.first_diff(canon(b.term), a.term)))
    if bad:
        return False, 'byte %d of %s(%s(x)) is not x[%d]: %s' % (bad[0][0], 'dec' if first == 'enc' else 'enc', first, bad[0][0], bad[0][1])
    return True, '%d bytes' % len(xb)


if __name__ == '__main__':
    import sys
    cfgname = sys.argv[1]
    pats = sys.argv[2:]
    F = Facts(cfgname)
    m = F.mono
    with TermMode():
        for t in m.cipher_types:
            tn = pretty(t['ty'])
            if pats and not any(p in tn for p in pats):
                continue
            t0 = time.time()
            for first in ('enc', 'dec'):
                try:
                    ok, detail = roundtrip(m, t['ty'], lambda I, ty: I.top(ty, 'self'), first)
                except Exception as e:
                    import traceback
                    traceback.print_exc()
                    ok, detail = False, 'crash %r' % e
                print('%-40s %s-first %-5s %5.1fs %s' % (tn[:40], first, ok, time.time() - t0, detail[:260]))


def wblock_roundtrip(m, n, first='enc'):
    """belt_wblock_dec(belt_wblock_enc(d)) = d on a symbolic n-byte buffer and key (terms). Returns (ok, detail)"""
    names = ('belt_wblock_enc', 'belt_wblock_dec') if first == 'enc' else ('belt_wblock_dec', 'belt_wblock_enc')
    insts = [m.roots.get('verif_root__belt_block__free__' + nm) for nm in names]
    if None in insts:
        return None, 'roots missing'
    I = mk_interp(m, 60_000_000)
    st = State()
    I.fresh += 1
    dobj = ('P', 'data', I.fresh)
    dsyms = [topint(8, False, T.sym('d[%d]' % i, 8)) for i in range(n)]
    st.mem[dobj] = Arr(u8_slice_type(I), dsyms)
    data = Ptr(dobj, (), I.usize(0), I.usize(n), None, None, True)
    f = m.fn(insts[0])
    args = default_args(I, st, f, {1: data})
    keyp = args[1]
    for inst in insts:
        status, r = run(I, inst, [data, keyp], st)
        if status != 'ok' or not isinstance(r, Enum) or r.variant != 0:
            return False, '%s %r' % (status, str(r)[:200])
    out = st.mem[dobj]
    bad = [(i, x.term) for i, (x, d) in enumerate(zip(out.e, dsyms)) if x.term is not d.term]
    if bad:
        return False, 'byte %d: %s' % (bad[0][0], T.first_diff(bad[0][1], dsyms[bad[0][0]].term))
    return True, '%d bytes' % n
