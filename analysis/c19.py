"""C19 -- Debug / AlgorithmName output is key-independent and names the algorithm.

 N1  `Debug::fmt` of a cipher type (and any formatting impl it delegates to) never reads
     `self`: the text is a function of type-level data only, hence identical for all keys.
 N2  the text is computed statically for every rooted type (string constant propagation
     over every path of the monomorphic MIR, folding `S::NAME == "…"`, decoding
     `format_args!` templates with type-level arguments) and its head must be the
     type's own public name (case/punctuation-insensitive), or the generic form
     `<ADT name><parameters>`.
 N3  in the generic form every generic argument of the type (word type, typenum
     constants, S-box / byte-order marker) appears, in declaration order.
"""
import re
from facts import *
from strings import FmtEval
from c15 import type_by_name


def squash(s):
    return re.sub(r'[^a-z0-9]', '', s.lower())


def arg_spellings(m, a):
    """acceptable spellings of one generic argument"""
    if 'c' in a:
        v = a['c']
        mm = re.search(r'(\d+)', v)
        return [mm.group(1)] if mm else [squash(v)]
    s = pretty(a['s'])
    if re.fullmatch(r'U\d+', s):
        return [s[1:]]
    if re.fullmatch(r'[ui](8|16|32|64|128|size)', s):
        return [s, s[1:]]
    simple = s.split('<')[0].split('::')[-1]
    initials = ''.join(ch for ch in simple if ch.isupper())
    out = [squash(simple)]
    if len(initials) >= 2:
        out.append(initials.lower())
    return out


def generic_form_ok(m, d, text):
    """text (squashed) == ADT name followed by all generic args in order; returns (ok, why)"""
    adt = d['path'].split('::')[-1]
    t = squash(text)
    if not t.startswith(squash(adt)):
        return False, 'does not start with the type name `%s`' % adt
    rest = t[len(squash(adt)):]
    pos = 0
    for a in d.get('args', []):
        sp = arg_spellings(m, a)
        hits = [(rest.find(x, pos), x) for x in sp if rest.find(x, pos) >= 0]
        if not hits:
            return False, 'parameter `%s` (expected one of %s) does not appear%s' % (
                pretty(a.get('s', a.get('c', '?'))), sp, ' after the preceding parameters' if pos else '')
        i, x = min(hits)
        pos = i + len(x)
    return True, ''


def run(chk, facts_by_config):
    chk.trusted += ['core::fmt (write_str/write_fmt write exactly the given text)', 'rustc constant evaluation of string literals']
    for cfgname, F in facts_by_config.items():
        chk.configs.append(cfgname)
        m = F.mono
        counts = {'debug': 0, 'algname': 0}
        for op in ('debug', 'algname'):
            for name, info, inst in m.roots_of(op=op):
                root = m.fn(inst)
                calls = [t for (_b, t, c) in m.callees(root) if t['k'] == 'call' and t.get('f', {}).get('inst') is not None]
                tyname = pretty(info['ty'])
                if len(calls) != 1:
                    chk.fail_closed('fmt-root', '%s|%s|%s' % (cfgname, tyname, op), 'root has %d calls' % len(calls))
                    continue
                counts[op] += 1
                impl = m.fn(calls[0]['f']['inst'])
                ev = FmtEval(m)
                outs = ev.run(impl['id'], has_self=(op == 'debug'))
                base = '%s|%s|%s' % (cfgname, tyname, op)
                # ---- N1
                if op == 'debug':
                    if ev.self_uses:
                        fn, pl = ev.self_uses[0]
                        chk.violation('N1-no-self', base + '|N1',
                                      'Debug for %s reads `self` (%s in %s, %s): the output can depend on the key'
                                      % (tyname, pl, fn, fn_loc(impl)))
                    else:
                        chk.ok('N1-no-self', base, dict(type=tyname, impl=pretty(impl['full']), self_uses=0))
                # ---- N2 / N3
                texts = sorted(set(o for o in outs if o is not None))
                if not outs or None in outs or len(texts) != 1:
                    chk.violation('N2-names-type', base + '|N2|undetermined',
                                  '%s for %s (%s): the written text could not be determined statically as a single string '
                                  '(%s)' % (op, tyname, fn_loc(impl), texts[:3]))
                    continue
                text = texts[0]
                head = text.split('{')[0].strip() if op == 'debug' else text.strip()
                tid = type_by_name(m, info['ty'])
                d = m.ty(tid)
                pub = info['pub_path'].split('::')[-1]
                has_pub_name = not info['pub_path'].startswith('crate::')
                ok = False
                why = ''
                if has_pub_name and squash(head) == squash(pub):
                    ok = True
                elif op == 'algname' and has_pub_name and squash(pub).startswith(squash(head)) and \
                        squash(pub)[len(squash(head)):] in ('enc', 'dec') and squash(head):
                    ok = True     # Enc/Dec halves name the algorithm
                else:
                    ok, why = generic_form_ok(m, d, head) if d.get('args') else (False, 'is not the type name `%s`' % pub)
                if ok:
                    chk.ok('N2-names-type', base, dict(type=tyname, public_name=info['pub_path'], op=op, text=text))
                else:
                    chk.violation('N2-names-type', base + '|N2',
                                  '%s for %s writes "%s", which %s (%s)' % (
                                      'Debug' if op == 'debug' else 'AlgorithmName', tyname, text, why or 'does not name this type', fn_loc(impl)))
        chk.floor('debug-impls', counts['debug'], 'debug.' + cfgname)
        chk.floor('algname-impls', counts['algname'], 'algname.' + cfgname)
