"""Herbrand terms (global value numbering) -- see DESIGN §3.5.  Stub until engine L3 is armed."""
ENABLED = False


def const(w, v):
    return None


def sym(name, w):
    return None


def op(name, w, *args):
    return None
