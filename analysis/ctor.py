"""Per-type abstract runs shared by C11 (key-length contract), C20 (totality) and C18:
constructors for every slice length, the self-invariant they establish, and the encrypt/decrypt roots
started from that invariant.  One work item = one (configuration, cipher type); results are cached on disk
next to the facts they were computed from.
"""
import json, os, pickle, sys, time, traceback, hashlib
from facts import *
from engine import *
from values import *

MAXLEN = 300

# accepted key lengths, from the property text (C11) -- never from the code
SPEC_VARIABLE = {
    'blowfish::Blowfish': set(range(4, 57)),
    'cast5::Cast5': set(range(5, 17)),
    'cast6::Cast6': {16, 20, 24, 28, 32},
    'rc2::Rc2': set(range(1, 129)),
    'serpent::Serpent': set(range(16, 33)),
    'twofish::Twofish': {16, 24, 32},
}


def adt_of(ty_s):
    return pretty(ty_s).split('<')[0]


def site_rec(s):
    return dict(fn=s.key[0], kind=s.kind, desc=s.desc, line=s.line, visits=s.visits, fails=s.fails, why=s.why,
                loc=s.fn.get('span'))


def merge_sites(acc, I, label):
    for s in I.sites.values():
        k = '%s|%s|%s' % s.key
        r = acc.get(k)
        if r is None:
            r = site_rec(s)
            r['runs'] = 0
            r['fail_runs'] = []
            r['fails'] = 0
            r['visits'] = 0
            acc[k] = r
        r['runs'] += 1
        r['visits'] += s.visits
        if s.fails:
            r['fails'] += s.fails
            if len(r['fail_runs']) < 4:
                r['fail_runs'].append(label)
            if not r.get('why'):
                r['why'] = s.why


def key_size_of(m, new_inst):
    """KeySize::USIZE from the parameter type of KeyInit::new (&Array<u8, Un>)"""
    f = m.fn(new_inst)
    t = m.ty(f['mir']['locals'][1])
    if t['k'] == 'ref':
        return m.ty(t['t']).get('size')
    return None


def run_use(m, op, inst, gk, ginv, budget=8_000_000):
    """one encrypt/decrypt root from one invariant group"""
    I = mk_interp(m, budget)
    st = State()
    I.fresh += 1
    obj = ('P', 'self', I.fresh)
    st.mem[obj] = ginv
    selfp = Ptr(obj, (), None, None, None, None, False)
    args = default_args(I, st, m.fn(inst), {1: selfp})
    status, r = run(I, inst, args, st)
    sites = {}
    merge_sites(sites, I, '%s%s' % (op, list(gk) if gk else ''))
    rec = dict(op=op, status=status, steps=I.steps, sites=sites)
    if status not in ('ok', 'diverge'):
        rec['why'] = str(r)[:400]
    return rec


def merge_use(out, rec):
    op = rec['op']
    for k, srec in rec['sites'].items():
        r0 = out['use_sites'].get(k)
        if r0 is None:
            out['use_sites'][k] = srec
        else:
            r0['runs'] += srec['runs']
            r0['visits'] += srec['visits']
            r0['fails'] += srec['fails']
            r0['fail_runs'] = (r0['fail_runs'] + srec['fail_runs'])[:4]
            r0['why'] = r0.get('why') or srec.get('why')
    prev = out.get(op)
    status = rec['status']
    out[op] = dict(status=status if (prev is None or prev['status'] == 'ok') else prev['status'],
                   steps=rec['steps'] + (prev['steps'] if prev else 0))
    if status not in ('ok', 'diverge'):
        out[op]['why'] = rec.get('why')
        out['unsupported'].append(dict(run=op, status=status, why=rec.get('why', '')))


def sweep_lengths(m, pub_path, lens, budget=8_000_000):
    """KeyInit::new_from_slice on a key of each given length (unknown bytes)"""
    inst = None
    for name, info in m.roots_info.items():
        if info['pub_path'] == pub_path and info['op'] == 'new_from_slice':
            inst = m.roots[name]
    part = dict(nfs={}, sites={}, ok_values=[], unsupported=[])
    for n in lens:
        I = mk_interp(m, budget)
        st = State()
        arg = slice_arg(I, st, n if n != 'tail' else AInt(I.ptr_bits, MAXLEN + 1, (1 << I.ptr_bits) - 1))
        status, r = run(I, inst, [arg], st)
        merge_sites(part['sites'], I, 'new_from_slice(len=%s)' % n)
        rec = dict(status=status, fails=len(failed_sites(I)), steps=I.steps)
        if status == 'ok':
            if isinstance(r, Enum):
                rec['variant'] = 'Ok' if r.variant == 0 else 'Err'
                if r.variant == 0:
                    part['ok_values'].append(r.f[0])
            elif isinstance(r, EnumAny):
                rec['variant'] = 'Either'
                if 0 in r.variants:
                    part['ok_values'].append(r.variants[0][0])
            else:
                rec['variant'] = '?'
        elif status != 'diverge':
            rec['why'] = str(r)[:300]
            part['unsupported'].append(dict(run='new_from_slice(len=%s)' % n, status=status, why=str(r)[:500]))
        part['nfs'][str(n)] = rec
    # keep one representative per distinct result shape (the join is taken later)
    return part


def run_type(m, pub_path, want_enc=True, budget=8_000_000, nfs_pre=None):
    """all runs for one cipher type; returns a plain dict (picklable)"""
    t_start = time.time()
    roots = {}
    info0 = None
    for name, info in m.roots_info.items():
        if info['pub_path'] == pub_path:
            roots.setdefault(info['op'], []).append((name, info, m.roots[name]))
            info0 = info
    out = dict(pub_path=pub_path, ty=pretty(info0['ty']), nfs={}, ctor_sites={}, use_sites={}, unsupported=[],
               enc=None, dec=None, key_size=None, extra=[])
    ok_values = []

    def note_unsupported(label, status, msg):
        out['unsupported'].append(dict(run=label, status=status, why=str(msg)[:500]))

    # ---- KeyInit::new
    if 'new' in roots:
        name, info, inst = roots['new'][0]
        out['key_size'] = key_size_of(m, inst)
        I = mk_interp(m, budget)
        st = State()
        args = default_args(I, st, m.fn(inst))
        status, r = run(I, inst, args, st)
        merge_sites(out['ctor_sites'], I, 'new')
        out['new'] = dict(status=status)
        if status == 'ok':
            ok_values.append(r)
        elif status != 'diverge':
            note_unsupported('new', status, r)
    # ---- new_from_slice for every length (possibly precomputed in chunks by other workers)
    if 'new_from_slice' in roots:
        if nfs_pre is None:
            nfs_pre = [sweep_lengths(m, pub_path, lens_for_tier('quick'), budget)]
        for part in nfs_pre:
            out['nfs'].update(part['nfs'])
            for k, srec in part['sites'].items():
                r0 = out['ctor_sites'].get(k)
                if r0 is None:
                    out['ctor_sites'][k] = srec
                else:
                    r0['runs'] += srec['runs']
                    r0['visits'] += srec['visits']
                    r0['fails'] += srec['fails']
                    r0['fail_runs'] = (r0['fail_runs'] + srec['fail_runs'])[:4]
                    r0['why'] = r0.get('why') or srec.get('why')
            ok_values += part['ok_values']
            out['unsupported'] += part['unsupported']
    # ---- hand-rooted extra constructors (rc2 effective length, threefish tweaks, bcrypt state)
    for xname, xinst in m.roots.items():
        if xname in m.roots_info:
            continue
        parts = xname.split('__')
        if len(parts) < 4:
            continue
        xt = parts[2]
        if xt != pub_path.split('::')[-1] or parts[1] != pub_path.split('::')[0].replace('-', '_'):
            continue
        op = parts[3]
        f = m.fn(xinst)
        rt = m.ty(f['mir']['locals'][0])
        if pretty(rt['s']) != out['ty'] and not op.startswith(('encrypt', 'decrypt', 'bc_', 'salted')):
            continue
        if op.startswith(('encrypt', 'decrypt', 'bc_encrypt', 'bc_expand', 'salted')):
            continue      # uses of an instance: run below with the invariant
        variants = [None]
        if op == 'new_with_eff_key_len':
            effs = sorted(set(list(range(1, 18)) + [31, 32, 33, 63, 64, 65, 127, 128, 129, 255, 256, 257, 511, 512, 513] + list(range(1016, 1025))))
            variants = [(n, e) for n in (1, 5, 16, 128) for e in effs]
        for var in variants:
            I = mk_interp(m, budget)
            st = State()
            ov = {}
            if var is not None:
                ov[1] = slice_arg(I, st, var[0])
                ov[2] = I.usize(var[1])
            args = default_args(I, st, f, ov)
            status, r = run(I, xinst, args, st)
            label = '%s%s' % (op, '(len=%d, eff=%d)' % var if var else '')
            merge_sites(out['ctor_sites'], I, label)
            out['extra'].append(dict(run=label, status=status))
            if status == 'ok':
                ok_values.append(r)
            elif status != 'diverge':
                note_unsupported(label, status, r)
    # ---- invariant: partition constructor results on their constant scalar fields (Twofish.start, Cast5.small_key)
    groups = {}
    topf = mk_interp(m).top

    def shape_key(v):
        if isinstance(v, Struct):
            return tuple((i, x.const) for i, x in enumerate(v.f) if isinstance(x, AInt) and x.const is not None)
        return ()
    for v in ok_values:
        k = shape_key(v)
        try:
            groups[k] = v if k not in groups else join(groups[k], v, topf)
        except JoinFail as e:
            note_unsupported('invariant', 'unsupported', 'join of constructor results: %s' % e)
    if len(groups) > 8:
        g = None
        for v in groups.values():
            g = v if g is None else join(g, v, topf)
        groups = {(): g}
    inv = None
    for v in groups.values():
        inv = v if inv is None else join(inv, v, topf)
    out['invariant'] = [repr(v)[:300] for v in groups.values()]
    out['group_keys'] = [list(k) for k in groups.keys()]
    out['n_ok_values'] = len(ok_values)
    # ---- conversions From<Enc> / From<&Enc>: their results join the invariant
    src_inv = {}
    for op in ('from', 'from_ref'):
        for (name, info, inst) in roots.get(op, []):
            src = info['src']
            if src not in src_inv:
                sub = run_type(m, src, want_enc=False, budget=budget)
                src_inv[src] = sub.get('_inv')
                for u in sub['unsupported']:
                    note_unsupported('source %s: %s' % (src, u['run']), u['status'], u['why'])
            sv = src_inv[src]
            if sv is None:
                note_unsupported(op, 'unsupported', 'no invariant for conversion source %s' % src)
                continue
            I = mk_interp(m, budget)
            st = State()
            if op == 'from_ref':
                I.fresh += 1
                obj = ('P', 'src', I.fresh)
                st.mem[obj] = sv
                arg = Ptr(obj, (), None, None, None, None, False)
            else:
                arg = sv
            status, r = run(I, inst, [arg], st)
            merge_sites(out['ctor_sites'], I, '%s(%s)' % (op, src))
            out['extra'].append(dict(run='%s(%s)' % (op, src), status=status))
            if status == 'ok':
                try:
                    inv = r if inv is None else join(inv, r, I.top)
                except JoinFail as e:
                    note_unsupported(op, 'unsupported', 'join: %s' % e)
            elif status != 'diverge':
                note_unsupported('%s(%s)' % (op, src), status, r)
    out['_inv'] = inv
    # ---- uses of an instance, from the invariant: encrypt / decrypt roots and inherent methods
    uses = []
    if inv is not None:
        for op in ('enc', 'dec'):
            for (name, info, inst) in roots.get(op, []):
                uses.append((op, inst))
        for xname, xinst in m.roots.items():
            if xname in m.roots_info:
                continue
            parts = xname.split('__')
            if len(parts) >= 4 and parts[2] == pub_path.split('::')[-1] and parts[1] == pub_path.split('::')[0].replace('-', '_') \
                    and parts[3].startswith(('encrypt', 'decrypt', 'bc_encrypt')):
                uses.append((parts[3], xinst))
    if want_enc == 'defer':
        out['_uses'] = [(op, inst, gk, ginv) for (op, inst) in uses for gk, ginv in groups.items()]
    elif want_enc:
        for (op, inst) in uses:
            for gk, ginv in groups.items():
                merge_use(out, run_use(m, op, inst, gk, ginv, budget))
    out['wall_s'] = round(time.time() - t_start, 2)
    return out


def summarize(xs):
    if not xs:
        return '{}'
    out = []
    a = b = xs[0]
    for x in xs[1:]:
        if x == b + 1:
            b = x
        else:
            out.append((a, b))
            a = b = x
    out.append((a, b))
    return ','.join('%d' % a if a == b else '%d..%d' % (a, b) for a, b in out)


_FACTS = {}


def _facts(cfgname, fdir):
    if fdir not in _FACTS:
        _FACTS.clear()
        _FACTS[fdir] = Facts(cfgname, fdir)
    return _FACTS[fdir].mono


def _cache_path(fdir, tag):
    return os.path.join(fdir, 'runs-%s.pkl' % hashlib.sha1((tag + '|' + _code_hash()).encode()).hexdigest()[:16])


def _load(path):
    if os.path.exists(path):
        try:
            return pickle.load(open(path, 'rb'))
        except Exception:
            return None
    return None


def _store(path, r):
    tmp = path + '.%d.tmp' % os.getpid()
    pickle.dump(r, open(tmp, 'wb'))
    os.replace(tmp, path)


def _worker_sweep(job):
    cfgname, fdir, pub_path, lens = job
    cache = _cache_path(fdir, 'sweep|%s|%s' % (pub_path, lens))
    r = _load(cache)
    if r is None:
        try:
            r = sweep_lengths(_facts(cfgname, fdir), pub_path, lens)
        except Exception:
            r = dict(nfs={}, sites={}, ok_values=[], unsupported=[dict(run='sweep', status='crash', why=traceback.format_exc()[-800:])])
        _store(cache, r)
    return (cfgname, pub_path, r)


def _worker_use(job):
    cfgname, fdir, pub_path, idx, op, inst, gk, ginv = job
    try:
        rec = run_use(_facts(cfgname, fdir), op, inst, gk, ginv)
    except Exception:
        rec = dict(op=op, status='unsupported', steps=0, sites={}, why='crash: ' + traceback.format_exc()[-600:])
    return (cfgname, pub_path, idx, rec)


def _worker(job):
    cfgname, fdir, pub_path, parts, ltag = job
    cache = _cache_path(fdir, 'type|' + ltag + pub_path)
    r = _load(cache)
    if r is not None:
        return r
    try:
        m = _facts(cfgname, fdir)
        r = run_type(m, pub_path, nfs_pre=parts, want_enc='defer')
        r.pop('_inv', None)
        r['config'] = cfgname
        return r
    except Exception as e:
        r = dict(pub_path=pub_path, config=cfgname, crashed=traceback.format_exc()[-1500:])
    _store(cache, r)
    return r


_CH = None


def _code_hash():
    global _CH
    if _CH is None:
        h = hashlib.sha1()
        d = os.path.dirname(os.path.abspath(__file__))
        for f in ('interp.py', 'values.py', 'ops.py', 'models.py', 'simd.py', 'engine.py', 'ctor.py', 'terms.py'):
            h.update(open(os.path.join(d, f), 'rb').read())
        _CH = h.hexdigest()
    return _CH


HEAVY = {'blowfish::Blowfish': 14, 'blowfish::BlowfishLE': 14, 'crate::X_Blowfish': 14, 'twofish::Twofish': 4, 'rc2::Rc2': 6,
         'threefish::Threefish1024': 2}


QUICK_LENS = sorted(set(list(range(0, 66)) + [100, 127, 128, 129, 130, 200, 255, 256, 257, 300]))


def lens_for_tier(tier):
    return (list(range(0, MAXLEN + 1)) if tier == 'thorough' else QUICK_LENS) + ['tail']


BASE_CONFIGS = ('x64', 'a64', 'x86')
CFG_CRATES = ('aes', 'kuznyechik', 'serpent')     # the crates whose code depends on a cfg flag


def run_all(facts_by_config, jobs=None, only=None, lens=None, cfg_filter=False):
    """{(config, pub_path): result}.  cfg_filter: in a configuration that differs from a base configuration only by cfg
    flags, analyse only the crates whose code depends on a cfg flag (the others are identical code, C03 F)"""
    import multiprocessing as mp
    lens_all = lens or (list(range(0, MAXLEN + 1)) + ['tail'])
    quick = len(lens_all) < MAXLEN
    ltag = hashlib.sha1(str(lens_all).encode()).hexdigest()[:8]
    sweeps = []
    types = []
    for cfgname, F in facts_by_config.items():
        for t in F.roots_info['types']:
            if only and t['pub_path'] not in only:
                continue
            if cfg_filter and cfgname not in BASE_CONFIGS and t['crate'] not in CFG_CRATES:
                continue
            types.append((cfgname, F.dir, t['pub_path'], 'crypto_common::KeyInit' in t['traits'], ltag))
            if 'crypto_common::KeyInit' not in t['traits']:
                continue
            if _load(_cache_path(F.dir, 'type|' + ltag + t['pub_path'])) is not None:
                continue
            lens = lens_all
            k = HEAVY.get(t['pub_path'], 1)
            if quick and 'lowfish' in t['pub_path']:
                # quick tier: the expensive Blowfish schedule is run for boundary and sample lengths only
                keep = {4, 5, 6, 7, 8, 9, 16, 31, 32, 33, 48, 55, 56}
                lens = [n for n in lens_all if n == 'tail' or n not in SPEC_VARIABLE['blowfish::Blowfish'] or n in keep]
            if k > 1:
                spec = SPEC_VARIABLE.get(adt_of(t['ty']), set())
                acc = [n for n in lens if n in spec]
                rej = [n for n in lens if n not in spec]
                chunks = [acc[i::k] for i in range(k)]
                chunks[0] = chunks[0] + rej
            else:
                chunks = [lens]
            for c in chunks:
                if c:
                    sweeps.append((cfgname, F.dir, t['pub_path'], c))
    sweeps.sort(key=lambda w: -len([n for n in w[3] if n in SPEC_VARIABLE.get('blowfish::Blowfish') and 'lowfish' in w[2]]))
    jobs = jobs or min(16, os.cpu_count() or 4)
    res = {}
    parts = {}
    with mp.Pool(jobs) as pool:
        for (c, p, r) in pool.imap_unordered(_worker_sweep, sweeps, chunksize=1):
            parts.setdefault((c, p), []).append(r)
        work = [(c, d, p, parts.get((c, p)) if ki else None, lt) for (c, d, p, ki, lt) in types]
        heavy = ('twofish', 'rc2', 'kuznyechik', 'serpent', 'rc5', 'threefish', 'aes')
        work.sort(key=lambda w: (0 if w[2].startswith(heavy) else 1, w[2]))
        pending = []
        for r in pool.imap_unordered(_worker, work, chunksize=1):
            res[(r['config'], r['pub_path'])] = r
            uses = r.pop('_uses', None)
            if uses:
                d = facts_by_config[r['config']].dir
                for idx, (op, inst, gk, ginv) in enumerate(uses):
                    pending.append((r['config'], d, r['pub_path'], idx, op, inst, gk, ginv))
        for (c, p, idx, rec) in pool.imap_unordered(_worker_use, pending, chunksize=1):
            merge_use(res[(c, p)], rec)
        for (c, p), r in res.items():
            if 'crashed' not in r and not r.get('_stored'):
                r['_stored'] = True
                _store(_cache_path(facts_by_config[c].dir, 'type|' + ltag + p), r)
    return res


if __name__ == '__main__':
    cfgname = sys.argv[1]
    only = sys.argv[2:] or None
    F = Facts(cfgname)
    t0 = time.time()
    res = run_all({cfgname: F}, only=only)
    for (c, p), r in sorted(res.items()):
        if 'crashed' in r:
            print('CRASH', p, r['crashed'][-400:])
            continue
        nfs = r['nfs']
        acc = sorted(int(n) for n, x in nfs.items() if n != 'tail' and x.get('variant') == 'Ok')
        bad = [n for n, x in nfs.items() if x['status'] not in ('ok',) or x.get('variant') not in ('Ok', 'Err')]
        cf = sum(1 for s in r['ctor_sites'].values() if s['fails'])
        uf = sum(1 for s in r['use_sites'].values() if s['fails'])
        print('%-34s %6.1fs accepted=%s undecided=%s ctor sites %d (%d fail) use sites %d (%d fail) enc=%s dec=%s unsupported=%d' % (
            p, r['wall_s'], summarize(acc), bad[:4], len(r['ctor_sites']), cf, len(r['use_sites']), uf,
            (r.get('enc') or {}).get('status'), (r.get('dec') or {}).get('status'), len(r['unsupported'])))
        for u in r['unsupported'][:2]:
            print('      UNSUPPORTED', u['run'], u['why'][:200])
        for k, s in list(r['ctor_sites'].items()) + list(r['use_sites'].items()):
            if s['fails']:
                print('      FAIL', k[:110], '|', s['why'][:140], s['fail_runs'][:2])
    print('total %.1fs' % (time.time() - t0))


