"""C02 -- the software AES types compute the FIPS-197 cipher and inverse cipher (engine L3b, bit level).

What is decided (for every key and every block at once; nothing is executed):

 (B) *S-box lemma*.  The bitsliced circuits `sub_bytes` / `inv_sub_bytes` are position-wise boolean functions of 8 words;
     their complete truth tables (256 rows, computed from the term DAG of the circuit) are compared with the FIPS-197
     S-box, which is *generated here from its definition* (multiplicative inverse in GF(2^8) modulo x^8+x^4+x^3+x+1
     followed by the affine map with constant 0x63) -- not copied from the code:
         sub_bytes(u) = S(u) ^ c        inv_sub_bytes(v) = S^-1(v ^ c')        for constants c, c' read off row 0
     (the fixsliced code omits the S-box NOTs and compensates in the key schedule, so c = c' = 0x63 today; any constants
     are accepted because the comparison below accounts for them).
 (F) *Cipher = FIPS-197*.  For Aes128/192/256 and both directions the output of the single-block backend routine on a
     symbolic block, with the instance `KeyInit::new` builds from a symbolic key, is compared bit for bit, in GF(2)-affine
     normal form, with the FIPS-197 pseudo-code (KeyExpansion, Cipher, InvCipher: sections 5.1-5.3) written below as a
     builder of bit-level normal forms over the same symbols, in which SubBytes is `S(u) = sub_bytes(u) ^ c` with
     sub_bytes the position-wise opaque function of lemma B.  ShiftRows, MixColumns (xtime is GF(2)-linear), AddRoundKey,
     RotWord, Rcon, the bitslice packing, the fixslice row adjustments and the NOT compensation are all affine and are
     expanded exactly, so equality of the normal forms is equality of the functions for all 2^128..2^256 keys and all
     2^128 blocks.

Together with C04 L (every lane of the batched routine equals the single-block routine), C12 E (encrypt-only /
decrypt-only / combined types compute the same function) and C12 U (run-time selection), this decides the property for
the software implementations: fixslice64 and its compact form (quick), fixslice32 / AArch64 software arm (thorough).
AES-NI and ARMv8 are decided relative to the documented semantics of the instructions (rule N, see below) when the
interpreter's byte models can express the key expansion; otherwise they are listed as undecided.
"""
import equiv, engine, c01, c04, bitform
import terms as T
from facts import pretty
from interp import State
from ops import flatten

ONE = bitform.ONE
ZERO = bitform.ZERO


# ---------------------------------------------------------------------------- FIPS-197, generated from its definition
def _gf_mul(a, b):
    r = 0
    while b:
        if b & 1:
            r ^= a
        a <<= 1
        if a & 0x100:
            a ^= 0x11B
        b >>= 1
    return r


def fips_sbox():
    inv = [0] * 256
    for x in range(1, 256):
        for y in range(1, 256):
            if _gf_mul(x, y) == 1:
                inv[x] = y
                break
    S = []
    for x in range(256):
        b = inv[x]
        r = 0
        for i in range(8):
            bit = ((b >> i) ^ (b >> ((i + 4) % 8)) ^ (b >> ((i + 5) % 8)) ^ (b >> ((i + 6) % 8)) ^ (b >> ((i + 7) % 8)) ^ (0x63 >> i)) & 1
            r |= bit << i
        S.append(r)
    return S


# ---------------------------------------------------------------------------- bytes as 8 XOR-sets (LSB first)
def bxor(a, b):
    return tuple(x ^ y for x, y in zip(a, b))


def bconst(v):
    return tuple(ONE if (v >> i) & 1 else ZERO for i in range(8))


def xtime(b):
    return (b[7], b[0] ^ b[7], b[1], b[2] ^ b[7], b[3] ^ b[7], b[4], b[5], b[6])


def gmul(b, k):
    """multiplication of a symbolic byte by the constant k in GF(2^8): GF(2)-linear"""
    acc = bconst(0)
    p = b
    while k:
        if k & 1:
            acc = bxor(acc, p)
        p = xtime(p)
        k >>= 1
    return acc


class Sbox:
    """SubBytes / InvSubBytes through the code's position-wise functions and the constants of lemma B.
    perm[q] = bit of the byte carried by argument / result word q of the bitsliced circuit."""

    def __init__(self, fname, gname, perm, c, cg):
        self.f, self.g, self.perm, self.c, self.cg = fname, gname, perm, c, cg

    def _apply(self, name, byte):
        ins = tuple(byte[self.perm[q]] for q in range(8))
        out = [None] * 8
        for j in range(8):
            out[self.perm[j]] = bitform.pw_bit(name, j, ins)
        return tuple(out)

    def sub(self, byte):
        return bxor(self._apply(self.f, byte), bconst(self.c))

    def inv(self, byte):
        return self._apply(self.g, bxor(byte, bconst(self.cg)))


def key_expansion(key, sb):
    nk = len(key) // 4
    nr = nk + 6
    w = [list(key[4 * i:4 * i + 4]) for i in range(nk)]
    rcon = 1
    for i in range(nk, 4 * (nr + 1)):
        t = list(w[i - 1])
        if i % nk == 0:
            t = t[1:] + t[:1]
            t = [sb.sub(b) for b in t]
            t[0] = bxor(t[0], bconst(rcon))
            rcon = _gf_mul(rcon, 2)
        elif nk > 6 and i % nk == 4:
            t = [sb.sub(b) for b in t]
        w.append([bxor(a, b) for a, b in zip(w[i - nk], t)])
    return [[b for wd in w[4 * r:4 * r + 4] for b in wd] for r in range(nr + 1)]      # round keys, 16 bytes each


def add_round_key(s, k):
    return [bxor(a, b) for a, b in zip(s, k)]


def shift_rows(s, inverse=False):
    out = [None] * 16
    for c in range(4):
        for r in range(4):
            src = (c - r) % 4 if inverse else (c + r) % 4
            out[r + 4 * c] = s[r + 4 * src]
    return out


MC = ((2, 3, 1, 1), (1, 2, 3, 1), (1, 1, 2, 3), (3, 1, 1, 2))
IMC = ((14, 11, 13, 9), (9, 14, 11, 13), (13, 9, 14, 11), (11, 13, 9, 14))


def mix_columns(s, M=MC):
    out = [None] * 16
    for c in range(4):
        col = s[4 * c:4 * c + 4]
        for r in range(4):
            acc = bconst(0)
            for k in range(4):
                acc = bxor(acc, gmul(col[k], M[r][k]))
            out[r + 4 * c] = acc
    return out


def fips_cipher(block, rk, sb):
    nr = len(rk) - 1
    s = add_round_key(block, rk[0])
    for r in range(1, nr):
        s = [sb.sub(b) for b in s]
        s = shift_rows(s)
        s = mix_columns(s)
        s = add_round_key(s, rk[r])
    s = [sb.sub(b) for b in s]
    s = shift_rows(s)
    return add_round_key(s, rk[nr])


def fips_inv_cipher(block, rk, sb):
    nr = len(rk) - 1
    s = add_round_key(block, rk[nr])
    for r in range(nr - 1, 0, -1):
        s = shift_rows(s, True)
        s = [sb.inv(b) for b in s]
        s = add_round_key(s, rk[r])
        s = mix_columns(s, IMC)
    s = shift_rows(s, True)
    s = [sb.inv(b) for b in s]
    return add_round_key(s, rk[0])


def fips_round(block, key, sb):
    """cipher_round: MixColumns(ShiftRows(SubBytes(block))) ^ key"""
    return add_round_key(mix_columns(shift_rows([sb.sub(b) for b in block])), key)


def fips_inv_round(block, key, sb):
    """equiv_inv_cipher_round: InvMixColumns(InvShiftRows(InvSubBytes(block))) ^ key"""
    return add_round_key(mix_columns(shift_rows([sb.inv(b) for b in block], True), IMC), key)


# ---------------------------------------------------------------------------- lemma B
def circuit_tables(m, f, n=8):
    """truth tables of the n output words of the in-place position-wise circuit f over n symbolic words"""
    from interp import Ptr
    from values import Arr, topint
    equiv.fresh_terms()
    I = engine.mk_interp(m, 5_000_000)
    I.summaries = None
    I.bitcanon = False
    st = State()
    pty = I.types[f['mir']['locals'][1]]
    sty = pty['t']
    w = I.types[I.types[sty]['e']]['w']
    us = [topint(w, False, T.sym('u%d' % i, w)) for i in range(n)]
    I.fresh += 1
    obj = ('P', 'u', I.fresh)
    st.mem[obj] = Arr(sty, us)
    status, r = engine.run(I, f['id'], [Ptr(obj, (), I.usize(0), I.usize(n), None, None, True)], st)
    if status != 'ok':
        return None, '%s: %s %s' % (f['name'], status, str(r)[:200])
    outs = [e.term for e in st.mem[obj].e]
    if any(o is None for o in outs):
        return None, 'outputs are not terms'
    try:
        tabs, _vt = bitform.truth_tables(outs, [u.term for u in us])
    except bitform.NotPure as e:
        return None, 'not a position-wise boolean circuit (%s)' % e
    return tabs, None


def byte_function(tabs, perm):
    """the byte -> byte function the 8 truth tables define when word q carries bit perm[q]"""
    fn = []
    for x in range(256):
        row = 0
        for q in range(8):
            if (x >> perm[q]) & 1:
                row |= 1 << q
        y = 0
        for j in range(8):
            if (tabs[j] >> row) & 1:
                y |= 1 << perm[j]
        fn.append(y)
    return fn


def sbox_lemma(m, crate='aes'):
    """(Sbox | None, verdict True/False/None, detail)"""
    fns = {}
    for f in m.fns:
        if f['crate'] == crate and f.get('def_kind') in ('Fn', 'AssocFn') and 'impl_trait' not in f:
            fns.setdefault(f.get('name'), []).append(f)
    if len(fns.get('sub_bytes', [])) != 1 or len(fns.get('inv_sub_bytes', [])) != 1:
        return None, None, 'functions sub_bytes / inv_sub_bytes not found'
    S = fips_sbox()
    IS = [0] * 256
    for x, y in enumerate(S):
        IS[y] = x
    tf, e1 = circuit_tables(m, fns['sub_bytes'][0])
    tg, e2 = circuit_tables(m, fns['inv_sub_bytes'][0])
    if tf is None or tg is None:
        return None, None, e1 or e2
    why = None
    for perm in (tuple(range(8)), tuple(range(7, -1, -1))):
        f = byte_function(tf, perm)
        g = byte_function(tg, perm)
        c = f[0] ^ S[0]
        okf = all(f[x] == S[x] ^ c for x in range(256))
        cg = S[g[0]]
        okg = all(g[v] == IS[v ^ cg] for v in range(256))
        if okf and okg:
            return Sbox('pw:%s.sub_bytes' % crate, 'pw:%s.inv_sub_bytes' % crate, perm, c, cg), True, \
                'sub_bytes(u) = S(u) ^ 0x%02x, inv_sub_bytes(v) = S^-1(v ^ 0x%02x), word q = bit %s of the byte; 256 rows each' % (
                    c, cg, 'q' if perm[0] == 0 else '7-q')
        if perm[0] == 0:
            if not okf:
                x = [x for x in range(256) if f[x] != S[x] ^ c][0]
                why = 'sub_bytes is not the FIPS-197 S-box up to a constant: circuit(0x%02x) = 0x%02x, S(0x%02x) ^ 0x%02x = 0x%02x' % (x, f[x], x, c, S[x] ^ c)
            else:
                v = [v for v in range(256) if g[v] != IS[v ^ cg]][0]
                why = 'inv_sub_bytes is not the FIPS-197 inverse S-box up to a constant: circuit(0x%02x) = 0x%02x, S^-1(0x%02x ^ 0x%02x) = 0x%02x' % (v, g[v], v, cg, IS[v ^ cg])
    return None, False, why


# ---------------------------------------------------------------------------- rule F
def sym_bytes(prefix, n):
    return [bitform.bitform(T.sym('%s[%d]' % (prefix, i), 8)) for i in range(n)]


import re
_INTRINSIC = re.compile(r'^(_mm\d*_|_m_|v[a-z0-9]+q?_|fn:|call:|intrinsic)')
_MIR_OPS = {'BitAnd', 'BitOr', 'BitXor', 'Not', 'Add', 'Sub', 'Mul', 'Shl', 'Shr', 'rotl', 'rotr', 'Neg', 'cat', 'c', 's', 'bx'}


def unmodelled_ops(bits):
    """operators without a bit-level meaning (CPU intrinsics that have no expansion in bitform.ISA, summarised callees)
    among the atoms reachable from the given XOR-sets, through the inputs of position-wise functions"""
    seen, out, stack = set(), set(), [a for b in bits for a in b if a]
    while stack:
        a = stack.pop()
        if a in seen:
            continue
        seen.add(a)
        d = bitform._atom_of[a]
        if d[0] == 'pw':
            for s_ in d[3]:
                stack.extend(x for x in s_ if x and x not in seen)
            continue
        k = d[0][0]
        if k not in _MIR_OPS and not k.startswith('pw:') and (_INTRINSIC.match(k) or k.split('#')[0] not in bitform.ISA):
            out.add(k.split('#')[0])
    return sorted(out)


def describe_diff(code, spec):
    for i, (a, b) in enumerate(zip(code, spec)):
        if a is None:
            return 'output byte %d is not a term' % i
        if a != b:
            bit = [k for k in range(8) if a[k] != b[k]][0]
            only = sorted(a[bit] - b[bit])[:3]
            return 'output byte %d bit %d: %d atoms in the code\'s normal form, %d in FIPS-197\'s (%d in common); only in the code: %s' % (
                i, bit, len(a[bit]), len(b[bit]), len(a[bit] & b[bit]), ', '.join(bitform.atom_name(x, 0, 3)[:120] for x in only))
    return None


def decide(chk, rule, key, code, ref, msg_bad, sample):
    """compare normal forms; True = decided (ok or violation recorded), False = undecided because the code's normal form
    contains an operator the engine has no bit-level meaning for (recorded under `undecided`, never a pass)"""
    d = describe_diff(code, ref)
    if not d:
        chk.ok(rule, key, sample)
        return True
    um = unmodelled_ops([b for byte in code if byte is not None for b in byte])
    if um:
        chk.undecided.append('%s %s: the code uses %s, for which analysis/c02_hw.py has no bit-level expansion -- not decided' % (rule, key, ', '.join(um)))
        return False
    chk.violation(rule, key, msg_bad + ': ' + d)
    return True


def rule_F(chk, nm, F):
    m = F.mono
    n = 0
    undec = [0]
    with equiv.TermMode():
        try:
            sb, verdict, detail = sbox_lemma(m)
            key = '%s|aes::soft::fixslice' % nm
            if sb is None:
                if verdict is False:
                    chk.violation('B-sbox-is-fips', key, 'aes (%s): %s' % (nm, detail))
                else:
                    chk.undecided.append('software AES in %s: bit-level mode not applicable (%s)' % (nm, detail))
                    return None
                return n
            chk.ok('B-sbox-is-fips', key, dict(lemma=detail))
            spec = c01.bitlevel_spec('aes::soft')
            summ, inv, lem, verdict = c01.bitlevel_setup(m, spec)
            if summ is None:
                if verdict is False:
                    chk.violation('B-sbox-is-fips', key + '|inverse-pair', 'aes (%s): %s' % (nm, lem))
                    return n
                chk.undecided.append('software AES in %s: bit-level mode not applicable (%s)' % (nm, lem))
                return None
            equiv.fresh_terms()
            for (self_ty, trait, single, par) in c04.backend_pairs(m):
                sname = pretty(m.ty(self_ty)['s'])
                if not sname.startswith('aes::soft::'):
                    continue
                cipher_s = c04.wrapped_cipher(m, self_ty)
                news = c04.soft_new(m, cipher_s) if cipher_s else []
                if not news:
                    continue
                key = '%s|%s' % (nm, sname)
                I = c04.soft_interp(m, summ, inv, fresh=False)
                st0 = State()
                fnew = m.fn(news[0])
                args = engine.default_args(I, st0, fnew)
                status, cipher = engine.run(I, fnew['id'], args, st0)
                if status != 'ok':
                    chk.fail_closed('F-fips-197', key + '|new', '%s %s' % (status, str(cipher)[:200]))
                    continue
                kt = I.types[fnew['mir']['locals'][1]]['t']
                kleaves = flatten(I, st0.mem[args[0].obj], kt)
                ksyms = [bitform.bitform(b.term) if b.term is not None else None for b in kleaves]
                enc = single['name'].startswith('encrypt')
                rk = None
                for fn in (single, par):
                    if fn is None:
                        continue
                    fkey = key if fn is single else key + '|par'
                    status, r, before, sout = c04.soft_call(I, m, self_ty, cipher, fn, None, 'c' if fn is single else 'p')
                    if status != 'ok':
                        chk.fail_closed('F-fips-197', fkey + '|run', '%s %s' % (status, str(r)[:200]))
                        continue
                    inout_ty = m.ty(fn['mir']['locals'][2])
                    block_ty = [I.types[fd['t']]['t'] for fd in inout_ty['variants'][0]['f'] if I.types[fd['t']]['k'] == 'ptr'][0]
                    xs = [bitform.bitform(b.term) if b.term is not None else None for b in flatten(I, before, block_ty)]
                    code = [bitform.bitform(bitform.recanon(b.term)) if b.term is not None else None for b in flatten(I, sout, block_ty)]
                    if len(ksyms) not in (16, 24, 32) or len(xs) % 16 or not xs or len(code) != len(xs) or any(k is None or len(k) != 8 for k in ksyms + xs):
                        chk.fail_closed('F-fips-197', fkey + '|shape', 'key / block are not byte arrays of symbols (%d, %d)' % (len(ksyms), len(xs)))
                        continue
                    if rk is None:
                        rk = key_expansion(ksyms, sb)
                    ref = []
                    for l in range(len(xs) // 16):
                        ref += (fips_cipher if enc else fips_inv_cipher)(xs[16 * l:16 * l + 16], rk, sb)
                    if decide(chk, 'F-fips-197', fkey, code, ref, '%s (%s, %d-byte key): %s differs from the FIPS-197 %s%s' % (
                            sname, nm, len(ksyms), fn['name'], 'Cipher' if enc else 'InvCipher',
                            '' if fn is single else ' applied to each of the %d blocks (byte index / 16 = lane)' % (len(xs) // 16)),
                            dict(backend=sname, key_bytes=len(ksyms), direction='encrypt' if enc else 'decrypt',
                                 rounds=len(rk) - 1, config=nm, blocks=len(xs) // 16)):
                        n += 1
                    else:
                        undec[0] += 1
        finally:
            T.BITCANON = False
            engine._INTERPS.clear()
    return None if undec[0] else n


SOFT_CONFIGS = ('x64', 'x64-soft', 'x64-alt1', 'x86-soft-all', 'x86-alt1-all', 'a64-soft-all')


def run(chk, facts_by_config):
    chk.trusted += ['FIPS-197 sections 4.2, 5.1-5.3 as transcribed in analysis/c02.py (S-box generated from its definition)',
                    'the GF(2)-affine normal form of analysis/bitform.py', 'rustc MIR semantics as modelled by the interpreter']
    for nm, F in facts_by_config.items():
        if nm not in SOFT_CONFIGS:
            continue
        chk.configs.append(nm)
        n = rule_F(chk, nm, F)
        if n is not None:
            chk.floor('F-fips-197', n, 'F.' + nm)
    try:
        import c02_hw
    except ImportError:
        c02_hw = None
    if c02_hw is not None:
        c02_hw.run(chk, facts_by_config)
