"""A tiny abstract evaluator for formatting bodies (Debug::fmt / write_alg_name).

It follows every path of the monomorphic MIR, propagating string and small integer
constants, folding `str == str` comparisons of constants, and collects what is written
to the formatter (`write_str` of a constant, `write_fmt` of a constant template whose
arguments are type-level constants).  Anything else written makes the path's output
`None` (unknown).  It also reports every use of the `self` parameter.
"""
from facts import *


def alloc_bytes(m, aid, off, n):
    a = m.allocs.get(aid)
    if a is None or a.get('k') != 'mem':
        return None
    h = a['bytes']
    if off + n > a['size']:
        return None
    return bytes.fromhex(h[2 * off:2 * (off + n)])


def const_value(m, c):
    """python value of a MIR constant: int, str (for &str), bytes (for &[u8;N]), or None"""
    if 'v' in c:
        return c.get('sv', c['v'])
    if 'ptr' in c and 'len' in c:
        b = alloc_bytes(m, c['ptr'], c.get('off', 0), c['len'])
        t = m.ty(c['t'])
        if b is not None:
            inner = m.ty(t['t']) if t['k'] in ('ref', 'ptr') else {}
            if inner.get('k') == 'str':
                return b.decode('utf-8', 'replace')
            return b
    if 'ptr' in c:
        t = m.ty(c['t'])
        if t['k'] in ('ref', 'ptr'):
            inner = m.ty(t['t'])
            a = m.allocs.get(c['ptr'])
            if a and a.get('k') == 'mem':
                if inner['k'] == 'array' and m.ty(inner['e']).get('w') == 8:
                    return alloc_bytes(m, c['ptr'], c.get('off', 0), inner['n'])
                if inner['k'] == 'ref' and m.ty(inner['t'])['k'] == 'str':
                    # &&str : pointer to a (ptr,len) pair
                    psz = 8 if a['size'] >= 16 else 4
                    raw = alloc_bytes(m, c['ptr'], c.get('off', 0), 2 * psz)
                    if raw is not None and a['ptrs']:
                        ln = int.from_bytes(raw[psz:], 'little')
                        tgt = [r for (o, r) in a['ptrs'] if o == c.get('off', 0)]
                        if tgt:
                            b = alloc_bytes(m, tgt[0], 0, ln)
                            if b is not None:
                                return b.decode('utf-8', 'replace')
    if c.get('zst'):
        return ()
    return None


def decode_template(tpl, args):
    """fmt::Arguments template (see core::fmt) -> string, or None if an argument is unknown"""
    out = []
    i = 0
    ai = 0
    while i < len(tpl):
        n = tpl[i]
        i += 1
        if n == 0:
            return ''.join(out)
        if n < 0x80:
            out.append(tpl[i:i + n].decode('utf-8', 'replace'))
            i += n
        elif n == 0x80:
            ln = int.from_bytes(tpl[i:i + 2], 'little')
            i += 2
            out.append(tpl[i:i + ln].decode('utf-8', 'replace'))
            i += ln
        else:
            if n & 1:
                i += 4
            if n & 2:
                i += 2
            if n & 4:
                i += 2
            if n & 8:
                ai = int.from_bytes(tpl[i:i + 2], 'little')
                i += 2
            if ai >= len(args) or args[ai] is None:
                return None
            out.append(str(args[ai]))
            ai += 1
    return ''.join(out)


class FmtEval:
    MAX_PATHS = 256

    def __init__(self, m):
        self.m = m
        self.self_uses = []

    def run(self, inst, self_local=1, fmt_local=2, has_self=True):
        """returns list of outputs (str or None) of all paths that end in a normal return"""
        f = self.m.fn(inst)
        body = f['mir']
        results = []
        self._paths = 0
        self._walk(f, body, 0, {}, [], results, self_local if has_self else None, set())
        return results

    # value environment: local -> ('str', s) | ('int', n) | ('bytes', b) | ('arg', v) | ('args', [..]) | ('fmtargs', s)
    def _walk(self, f, body, bi, env, out, results, self_local, visited):
        m = self.m
        steps = 0
        while True:
            steps += 1
            if steps > 2000 or self._paths > self.MAX_PATHS:
                results.append(None)
                return
            b = body['bbs'][bi]
            for s in b['s']:
                if s[0] != '=':
                    continue
                p, rv = s[1], s[2]
                if self_local is not None:
                    # taking a reference to (part of) self is not a read of key material; reading a value is
                    if rv[0] in ('ref', 'raw') and (rv[2][0] == self_local or env.get(rv[2][0]) == ('selfref',)):
                        if len(p) == 1:
                            env[p[0]] = ('selfref',)
                            continue
                    for q in places_read_by_rvalue(rv):
                        if q[0] == self_local and len(q) == 1 and rv[0] in ('use', 'cast') and len(p) == 1:
                            env[p[0]] = ('selfref',)
                            break
                        if q[0] == self_local or env.get(q[0]) == ('selfref',):
                            if env.get(q[0]) == ('selfref',) and len(q) == 1 and rv[0] in ('use', 'cast') and len(p) == 1:
                                env[p[0]] = ('selfref',)
                                break
                            self.self_uses.append((pretty(f['full']), place_str(q)))
                    if len(p) == 1 and env.get(p[0]) == ('selfref',) and rv[0] in ('use', 'cast', 'ref', 'raw'):
                        srcs = places_read_by_rvalue(rv)
                        if srcs and (srcs[0][0] == self_local or env.get(srcs[0][0]) == ('selfref',)) and not \
                                any(u == (pretty(f['full']), place_str(srcs[0])) for u in self.self_uses[-1:]):
                            continue
                if len(p) != 1:
                    continue
                v = None
                if rv[0] == 'use':
                    v = self._op(env, rv[1])
                elif rv[0] == 'ref' or rv[0] == 'raw':
                    q = rv[2]
                    if len(q) == 1:
                        v = env.get(q[0])
                    elif len(q) == 2 and q[1] == '*':
                        v = env.get(q[0])
                    elif len(q) == 2 and q[1][0] == 'f' and env.get(q[0], (None,))[0] == 'tuple':
                        v = env[q[0]][1][q[1][1]] if q[1][1] < len(env[q[0]][1]) else None
                elif rv[0] == 'agg':
                    vals = [self._op(env, o) for o in rv[2]]
                    if rv[1][0] == 'tuple':
                        v = ('tuple', vals)
                    elif rv[1][0] == 'array':
                        v = ('array', vals)
                elif rv[0] == 'cast' and rv[2][0] in ('cp', 'mv'):
                    v = self._op(env, rv[2])
                env[p[0]] = v
            t = b['t']
            k = t['k']
            if self_local is not None:
                deleg = k == 'call' and t.get('f', {}).get('inst') is not None and \
                    t['f'].get('trait') in ('core::fmt::Debug', 'core::fmt::Display') and \
                    t['f'].get('crate') in REPO_CRATES
                for oi, o in enumerate(term_operands(t)):
                    if o[0] in ('cp', 'mv') and (o[1][0] == self_local or env.get(o[1][0]) == ('selfref',)):
                        if deleg and oi == 0:
                            continue      # handed to another formatting impl, which is analysed in turn
                        self.self_uses.append((pretty(f['full']), place_str(o[1])))
            if k == 'goto':
                bi = t['t']
                continue
            if k == 'ret':
                rv0 = env.get(0)
                if not (rv0 and rv0[0] == 'err'):
                    results.append(''.join(out) if None not in out else None)
                return
            if k == 'sw':
                v = self._op(env, t['op'])
                targets = None
                if v is not None and v[0] == 'int':
                    hit = [bb for (val, bb) in t['v'] if val == v[1]]
                    targets = [hit[0] if hit else t['o']]
                elif v is not None and v[0] == 'discr':
                    hit = [bb for (val, bb) in t['v'] if val == v[1]]
                    targets = [hit[0] if hit else t['o']]
                else:
                    targets = sorted(set([bb for (_v, bb) in t['v']] + [t['o']]))
                if len(targets) == 1:
                    bi = targets[0]
                    continue
                for tg in targets:
                    self._paths += 1
                    key = (bi, tg, len(out))
                    if key in visited:
                        results.append(None)
                        continue
                    self._walk(f, body, tg, dict(env), list(out), results, self_local, visited | {key})
                return
            if k == 'call':
                name = callee_name(t)
                c = t.get('f', {})
                args = [self._op(env, a) for a in t['a']]
                dest = t['d'][0] if len(t['d']) == 1 else None
                res = None
                if name == "core::fmt::Formatter::<'a>::write_str":
                    s = args[1][1] if args[1] is not None and args[1][0] == 'str' else None
                    out.append(s)
                    res = ('okres',)
                elif name == "core::fmt::Formatter::<'a>::write_fmt":
                    s = args[1][1] if args[1] is not None and args[1][0] == 'fmtargs' else None
                    out.append(s)
                    res = ('okres',)
                elif name == "core::fmt::Arguments::<'a>::new":
                    tpl = args[0][1] if args[0] and args[0][0] == 'bytes' else None
                    av = args[1][1] if args[1] and args[1][0] == 'array' else None
                    if tpl is not None and av is not None:
                        res = ('fmtargs', decode_template(tpl, [a[1] if a and a[0] == 'arg' else None for a in av]))
                elif name.startswith("core::fmt::Arguments::<'a>::from_str") or name.startswith("core::fmt::Arguments::<'a>::new_const"):
                    if args and args[0] and args[0][0] == 'str':
                        res = ('fmtargs', args[0][1])
                elif name.startswith("core::fmt::rt::Argument::<'_>::new_"):
                    a = args[0]
                    if a is not None and a[0] in ('str', 'int'):
                        res = ('arg', a[1])
                elif name == 'core::any::type_name':
                    res = ('str', pretty(c['gargs'][0])) if c.get('gargs') else None
                elif c.get('trait') == 'typenum::marker_traits::Unsigned' and c['name'].startswith('to_'):
                    g = pretty(c['gargs'][0]) if c.get('gargs') else ''
                    if g.startswith('U') and g[1:].isdigit():
                        res = ('int', int(g[1:]))
                elif name.endswith('::eq') and 'PartialEq' in name or name == 'core::str::traits::<impl core::cmp::PartialEq for str>::eq':
                    if args[0] and args[1] and args[0][0] == 'str' and args[1][0] == 'str':
                        res = ('int', 1 if args[0][1] == args[1][1] else 0)
                elif name.endswith('::ne') and 'PartialEq' in name:
                    if args[0] and args[1] and args[0][0] == 'str' and args[1][0] == 'str':
                        res = ('int', 0 if args[0][1] == args[1][1] else 1)
                elif name == '<core::result::Result<T, E> as core::ops::try_trait::Try>::branch':
                    res = ('branch', args[0])
                elif 'FromResidual' in name:
                    res = ('err',)
                elif c.get('inst') is not None and c.get('crate') in REPO_CRATES + ['verif_roots'] and \
                        (c.get('trait') in ('core::fmt::Debug', 'core::fmt::Display', 'crypto_common::AlgorithmName')):
                    # delegation to another formatting impl: evaluate it in place
                    sub = FmtEval(m)
                    has_self = c.get('trait') != 'crypto_common::AlgorithmName'
                    outs = sub.run(c['inst'], has_self=has_self)
                    self.self_uses += sub.self_uses
                    outs = [o for o in outs]
                    if len(set(outs)) == 1:
                        out.append(outs[0])
                    else:
                        out.append(None)
                    res = ('okres',)
                elif name in ("core::fmt::Formatter::<'a>::debug_struct", "core::fmt::Formatter::<'a>::debug_tuple"):
                    # builder API: the text is assembled when the builder is finished (non-alternate form)
                    nm = args[1][1] if len(args) > 1 and args[1] is not None and args[1][0] == 'str' else None
                    res = ['builder', 'struct' if name.endswith('debug_struct') else 'tuple', nm, []]
                elif name.startswith('core::fmt::builders::Debug') and name.endswith('::field') and args and isinstance(args[0], list):
                    b_ = args[0]
                    if b_[1] == 'struct':
                        fn_ = args[1][1] if args[1] is not None and args[1][0] == 'str' else None
                        b_[3].append((fn_, None))          # the value's own Debug text is not evaluated
                    else:
                        b_[3].append((None, None))
                    res = b_
                elif name.startswith('core::fmt::builders::Debug') and name.rsplit('::', 1)[1] in ('finish', 'finish_non_exhaustive') \
                        and args and isinstance(args[0], list):
                    b_ = args[0]
                    ne = name.endswith('finish_non_exhaustive')
                    if b_[2] is None or b_[3]:
                        out.append(None)               # fields print values: not a type-level constant
                    elif b_[1] == 'struct':
                        out.append(b_[2] + (' { .. }' if ne else ''))
                    else:
                        out.append(b_[2] + ('(..)' if ne else ''))
                    res = ('okres',)
                elif "core::fmt::Formatter::<'a>::" in name or name.startswith('core::fmt::builders::'):
                    out.append(None)   # other builders: unknown text
                    res = ('okres',)
                if dest is not None:
                    env[dest] = res
                if t.get('t') is None:
                    return
                bi = t['t']
                continue
            if k in ('drop', 'assert'):
                bi = t['t']
                continue
            return   # unreachable / resume / abort

    def _op(self, env, o):
        if o[0] in ('cp', 'mv'):
            p = o[1]
            if len(p) == 1:
                return env.get(p[0])
            v = env.get(p[0])
            for e in p[1:]:
                if v is None:
                    return None
                if e == '*':
                    continue
                if e[0] == 'f' and v[0] == 'tuple':
                    v = v[1][e[1]] if e[1] < len(v[1]) else None
                elif e[0] == 'd':
                    continue
                elif e[0] == 'f' and v[0] == 'branch':
                    v = v[1]
                else:
                    return None
            return v
        if o[0] == 'k':
            c = o[1]
            val = const_value(self.m, c)
            if isinstance(val, str):
                return ('str', val)
            if isinstance(val, bytes):
                return ('bytes', val)
            if isinstance(val, int):
                return ('int', val)
        return None
