"""C18 -- BelT wide block: short input is rejected with the buffer untouched; longer input is processed totally.

 G  rejection (full for this clause): belt_wblock_enc / belt_wblock_dec are abstractly interpreted on a buffer of
    every length 0..=31 with unknown bytes: the result must be Err(InvalidLengthError), no panic edge may fire, and
    the abstract buffer object after the call must be the *same* value as before (no store reached it).
 T  totality for lengths >= 32: the same interpretation for every length 32..=100 and the boundary lengths
    127,128,129,255,256,257,1000 (multiples of 16 and not): result Ok, every panic edge discharged.
    Lengths beyond those are not decided (the loop/slice bounds are relational in the length).
Conformance with STB 34.101.31 and dec(enc(x)) = x are not decided.
"""
from facts import *
from engine import *
from values import *

SHORT = list(range(0, 32))
LONG_QUICK = list(range(32, 66)) + [79, 80, 81, 95, 96, 97, 127, 128, 129, 255, 256, 257]
LONG_THOROUGH = list(range(32, 260)) + [511, 512, 513, 1000, 1023, 1024, 1025]


_F = {}


def _one(job):
    cfgname, fdir, fname, n = job
    if fdir not in _F:
        _F.clear()
        _F[fdir] = Facts(cfgname, fdir)
    m = _F[fdir].mono
    inst = m.roots['verif_root__belt_block__free__' + fname]
    f = m.fn(inst)
    I = mk_interp(m, 12_000_000)
    st = State()
    data = slice_arg(I, st, n, 'data')
    before = st.mem[data.obj]
    args = default_args(I, st, f, {1: data})
    status, r = run_engine(I, inst, args, st)
    fails = failed_sites(I)
    return dict(cfg=cfgname, fn=fname, n=n, status=status, variant=(r.variant if isinstance(r, Enum) else None),
                why=(str(r)[:300] if status in ('unsupported', 'budget') else ''), untouched=st.mem.get(data.obj) is before,
                fails=[(s.desc, s.key[0], s.why[:200]) for s in fails[:3]], sites=len(I.sites))


def run(chk, facts_by_config):
    import multiprocessing as mp
    chk.trusted += ['core integer/slice semantics as interpreted from MIR', 'analysis/ops.py transfer functions']
    chk.undecided += ['totality for lengths not enumerated (relational in len)', 'conformance with STB 34.101.31 6.2.3/6.2.4',
                      'belt_wblock_dec(belt_wblock_enc(x)) = x']
    longs = LONG_THOROUGH if chk.tier == 'thorough' else LONG_QUICK
    jobs = []
    for cfgname, F in facts_by_config.items():
        chk.configs.append(cfgname)
        found = 0
        for fname in ('belt_wblock_enc', 'belt_wblock_dec'):
            if 'verif_root__belt_block__free__' + fname not in F.mono.roots:
                chk.fail_closed('anchor', '%s|%s' % (cfgname, fname), 'root for %s missing' % fname)
                continue
            found += 1
            for n in SHORT + longs:
                jobs.append((cfgname, F.dir, fname, n))
        chk.floor('anchors', found, 'fns.' + cfgname)
    jobs.sort(key=lambda j: -j[3])
    with mp.Pool(min(16, os.cpu_count() or 4)) as pool:
        results = pool.map(_one, jobs, chunksize=1)
    for x in sorted(results, key=lambda x: (x['cfg'], x['fn'], x['n'])):
        fname, n = x['fn'], x['n']
        key = '%s|%s|len=%d' % (x['cfg'], fname, n)
        if n < 32:
            if x['status'] != 'ok' or x['variant'] != 1:
                chk.violation('G-reject-short', key + '|result',
                              '%s on a %d-byte buffer does not return the length error (%s, variant %s) %s' % (fname, n, x['status'], x['variant'], x['why']))
            elif not x['untouched']:
                chk.violation('G-reject-short', key + '|mutated',
                              '%s on a %d-byte buffer returns the length error but a store reached the buffer first' % (fname, n))
            elif x['fails']:
                chk.violation('G-reject-short', key + '|panic', '%s on a %d-byte buffer: %s can fire: %s' % (fname, n, x['fails'][0][0], x['fails'][0][2]))
            else:
                chk.ok('G-reject-short', key, dict(fn=fname, length=n, result='Err', buffer='untouched') if n in (0, 31) else None)
        else:
            if x['status'] in ('unsupported', 'budget'):
                chk.fail_closed('T-total', key + '|' + x['status'], '%s len=%d: %s' % (fname, n, x['why']))
            elif x['status'] != 'ok' or x['variant'] != 0:
                chk.violation('T-total', key + '|result', '%s on a %d-byte buffer does not return Ok (%s, variant %s)' % (fname, n, x['status'], x['variant']))
            elif x['fails']:
                chk.violation('T-total', key + '|panic|' + x['fails'][0][0],
                              '%s on a %d-byte buffer: %s in %s can fire: %s' % (fname, n, x['fails'][0][0], x['fails'][0][1], x['fails'][0][2]))
            else:
                chk.ok('T-total', key, dict(fn=fname, length=n, result='Ok', panic_edges=x['sites']) if n in (32, 33, 257) else None)


from engine import run as run_engine
import os
