"""Models of compiler intrinsics, CPU intrinsics and the few body-less library functions.

Everything that has MIR is interpreted as written; a model exists only for items
without a body (intrinsics, `core::core_arch` leaf functions) or where a byte-level
reinterpretation is clearer at the model level.  Each model states its own
precondition as an obligation when it has one.
"""
import re
from values import *
import terms as T
from ops import binop, unop, int_cast, flatten, unflatten, transmute, ptr_addr, unwrap_ptr, wrap_ptr


def drop_term(v):
    from interp import drop_term as _d
    return _d(v)


def install(I):
    from interp import Unsupported, Diverge, RawPtr, Loc
    m = I.models

    def targ(callee, i=0):
        return callee['targs'][i]

    def ii_of(callee, i=0):
        return I.int_info(targ(callee, i))

    def need_int(v):
        if not isinstance(v, AInt):
            raise Unsupported('integer expected, got %r' % (v,))
        return v

    # ------------------------------------------------------------ pointers
    def ptr_binop(I_, frame, st, op, a, b, ty):
        if op == 'Offset':
            pd = I.types[ty]
            ps = I.types[pd['t']].get('size') if 't' in pd else None
            return ptr_offset(a, need_int(b), psize=ps)
        if isinstance(a, (Ptr, RawPtr)) and isinstance(b, (Ptr, RawPtr)) and op in ('Eq', 'Ne', 'Lt', 'Le', 'Gt', 'Ge'):
            ia, ib = ptr_index(a), ptr_index(b)
            if ia is not None and ib is not None and same_base(a, b):
                r, _ = binop(I, op, ia, ib, I.ptr_bits, False)
                return r
            if op in ('Eq', 'Ne') and not same_base(a, b) and not a.null and not b.null and ptr_is_obj(a) and ptr_is_obj(b):
                # pointers into different live objects are unequal
                return FALSE if op == 'Eq' else TRUE
            if a.null != b.null and (ptr_is_obj(a) or ptr_is_obj(b)):
                return FALSE if op == 'Eq' else TRUE if op == 'Ne' else abool(0, 1)
            return abool(0, 1)
        if isinstance(a, Opaque) or isinstance(b, Opaque):
            if op in ('Eq', 'Ne', 'Lt', 'Le', 'Gt', 'Ge'):
                return abool(0, 1)
            return Opaque(ty)
        if isinstance(a, Enum) and isinstance(b, Enum) and op in ('Eq', 'Ne'):
            eq = a.variant == b.variant
            return (TRUE if eq else FALSE) if op == 'Eq' else (FALSE if eq else TRUE)
        raise Unsupported('binary %s on %r, %r' % (op, a, b))

    def ptr_is_obj(p):
        if isinstance(p, RawPtr):
            return True
        return p.obj[0] not in ('null', 'addr')

    def same_base(a, b):
        if isinstance(a, RawPtr) and isinstance(b, RawPtr):
            return a.aid == b.aid and a.off == b.off
        if isinstance(a, Ptr) and isinstance(b, Ptr):
            return a.obj == b.obj and a.path == b.path
        return False

    def ptr_index(p):
        if p.elem is not None:
            return p.elem
        if p.start is not None:
            return p.start
        return I.usize(0)

    def int_info_of_value(v):
        return v.signed
    I.int_info_of_value = int_info_of_value

    def arr_unit(p, st):
        """element size (bytes) of the array an element pointer indexes"""
        try:
            v = I.read(st, Loc(p.obj, p.path, None))
        except Unsupported:
            return None
        for _ in range(6):
            if isinstance(v, (Arr, ArrSum)) and v.ty is not None and I.types[v.ty]['k'] in ('array', 'slice'):
                return I.types[I.types[v.ty]['e']].get('size')
            if isinstance(v, Struct):
                nz = [x for x in v.f if not (isinstance(x, Struct) and not x.f)]
                if len(nz) == 1:
                    v = nz[0]
                    continue
            return None
        return None

    def ptr_offset(p, n, signed=False, psize=None):
        """p.offset(n) where n counts objects of `psize` bytes (the pointee type at the time of the call)"""
        if isinstance(p, Opaque):
            return p
        if not isinstance(p, (Ptr, RawPtr)):
            raise Unsupported('pointer offset on %r' % (p,))
        q = p.copy()
        if n.const == 0:
            return q
        neg = n.signed and n.hi < 0
        if n.signed and n.lo < 0 and not neg:
            raise Unsupported('pointer offset of unknown sign')
        mag = AInt(I.ptr_bits, -n.hi, -n.lo) if neg else int_cast(n, n.w, n.signed, I.ptr_bits, False)
        if isinstance(q, RawPtr):
            if psize is None:
                psize = I.types[q.view].get('size') if q.view is not None else None
            if psize is None:
                raise Unsupported('offset of a raw constant pointer of unknown pointee size')
            if q.length is not None:
                base = q.start
                r, _ = binop(I, 'Sub' if neg else 'Add', base, mag, I.ptr_bits, False)
                q.start = r
                return q
            if mag.const is not None and q.elem is None:
                q.off += (-mag.const if neg else mag.const) * psize
                return q
            if q.elem is None:
                q.elem = I.usize(0)
                q.eunit = psize
            if q.eunit is None:
                q.eunit = psize
            if q.eunit != psize:
                if psize % q.eunit == 0:
                    mag, _ = binop(I, 'Mul', mag, I.usize(psize // q.eunit), I.ptr_bits, False)
                else:
                    raise Unsupported('mixed-unit offsets on a constant pointer')
            r, _ = binop(I, 'Sub' if neg else 'Add', q.elem, mag, I.ptr_bits, False)
            q.elem = r
            return q
        base = q.elem if q.elem is not None else (q.start if q.length is not None else None)
        if base is None and I.cur_state is not None:
            nb = array_base(q, I.cur_state)
            if nb is not None:
                q = nb
                base = q.elem
        if base is None:
            raise Unsupported('offset of a pointer that does not point into an array (%r + %r)' % (p, n))
        if psize is not None and I.cur_state is not None:
            unit = arr_unit(q, I.cur_state)
            if unit is not None and unit != psize:
                if unit and psize % unit == 0:
                    mag, _ = binop(I, 'Mul', mag, I.usize(psize // unit), I.ptr_bits, False)
                elif unit and unit % psize == 0 and q.elem is not None and q.elem.const is not None:
                    # finer-grained arithmetic (bytes over an array of blocks): step into the addressed element
                    inner = Ptr(q.obj, q.path + (('i', q.elem.const),), None, None, None, q.view, q.mut)
                    nb = array_base(inner, I.cur_state)
                    if nb is None or arr_unit(nb, I.cur_state) != psize:
                        raise Unsupported('pointer arithmetic in units of %d bytes inside a %d-byte element' % (psize, unit))
                    q = nb
                    base = q.elem
                else:
                    raise Unsupported('pointer arithmetic in units of %d bytes over an array of %d-byte elements' % (psize, unit))
        r, _ = binop(I, 'Sub' if neg else 'Add', base, mag, I.ptr_bits, False)
        if q.elem is not None:
            q.elem = r
        else:
            q.start = r
        return q
    I.ptr_offset = ptr_offset
    I.array_base = lambda p, st, want_ty=None: array_base(p, st, want_ty)
    m['@ptr_binop'] = ptr_binop

    def array_base(p, st, want_ty=None):
        """a pointer to (a transparent wrapper of) an array, viewed as pointer to elements of matching size"""
        try:
            v = I.read(st, Loc(p.obj, p.path, None))
        except Unsupported:
            return None
        path = p.path
        want = I.types[p.view].get('size') if p.view is not None else None
        if want_ty is not None:
            want = I.types[want_ty].get('size')
        for _ in range(6):
            if isinstance(v, (Arr, ArrSum)):
                es = None
                if v.ty is not None and I.types[v.ty]['k'] in ('array', 'slice'):
                    es = I.types[I.types[v.ty]['e']].get('size')
                if want is None or es == want:
                    q = p.copy()
                    q.path = path
                    q.elem = I.usize(0)
                    if want_ty is not None:
                        q.view = None if I.types[v.ty]['e'] == want_ty else want_ty
                    return q
                if want is not None and es is not None and es > want and isinstance(v, Arr) and len(v.e) >= 1:
                    # look inside the first element (array of blocks viewed as bytes)
                    path = path + (('i', 0),)
                    v = v.e[0]
                    continue
                return None
            if isinstance(v, Struct):
                nz = [i for i, x in enumerate(v.f) if not (isinstance(x, Struct) and not x.f)]
                if len(nz) != 1:
                    return None
                path = path + (nz[0],)
                v = v.f[nz[0]]
                continue
            return None
        return None

    def elem_locs(p, count, st):
        """locations of `count` consecutive elements starting at pointer p (thin element pointer or pointer to object)"""
        if count.const is None:
            raise Unsupported('memory operation with abstract element count')
        out = []
        for i in range(count.const):
            q = ptr_offset(p, I.usize(i)) if (i or p.elem is not None or getattr(p, 'length', None) is not None) else p
            pt = q.view
            out.append(I.deref(q, pt, st))
        return out

    def copy_nonoverlapping(I_, frame, st, args, callee):
        src, dst, cnt = args
        cnt = need_int(cnt)
        if cnt.const == 0:
            return UNIT
        if not isinstance(src, (Ptr, RawPtr)) or not isinstance(dst, Ptr):
            raise Unsupported('copy between %r and %r' % (src, dst))
        t = callee['targs'][0] if callee and callee.get('targs') else None
        if cnt.const is None:
            # abstract element count: every element that may be copied is read at an abstract index and weakly written
            idx = AInt(cnt.w, 0, max(cnt.hi - 1, 0))
            q = ptr_offset(src, idx)
            loc = I.deref(q, t if q.view is None else q.view, st)
            if loc.ty is None:
                loc.ty = t
            v = drop_term(I.read(st, loc))
            q = ptr_offset(dst, idx)
            loc = I.deref(q, t if q.view is None else q.view, st)
            I.write(st, loc, adapt_like(v, I.read_opt(st, loc)))
            return UNIT
        vals = []
        for i in range(cnt.const):
            q = ptr_offset(src, I.usize(i)) if cnt.const > 1 or src.elem is not None else src
            loc = I.deref(q, t if q.view is None else q.view, st)
            if loc.ty is None:
                loc.ty = t
            vals.append(I.read(st, loc))
        for i, v in enumerate(vals):
            q = ptr_offset(dst, I.usize(i)) if cnt.const > 1 or dst.elem is not None else dst
            loc = I.deref(q, t if q.view is None else q.view, st)
            I.write(st, loc, adapt_like(v, I.read_opt(st, loc)))
        return UNIT
    m['@copy_nonoverlapping'] = copy_nonoverlapping
    m['#copy_nonoverlapping'] = copy_nonoverlapping
    m['#copy'] = copy_nonoverlapping   # memmove: reads complete before writes in the model

    def read_opt(st, loc):
        try:
            return I.read(st, loc)
        except Unsupported:
            return None
    I.read_opt = read_opt

    def adapt_like(v, old):
        """wrap / unwrap transparent single-field structs so that v has the shape of old"""
        if old is None or isinstance(old, Uninit):
            return v
        from interp import UnionVal
        if isinstance(old, UnionVal) and not isinstance(v, UnionVal) and old.ty is not None:
            fs = I.types[old.ty]['variants'][0]['f']
            nz = [i for i, f in enumerate(fs) if I.types[f['t']].get('size') != 0]
            if len(nz) == 1:
                return UnionVal(old.ty, nz[0], I.adapt_type(v, fs[nz[0]]['t']))
        if isinstance(v, UnionVal) and not isinstance(old, UnionVal) and not isinstance(v.v, Uninit):
            return adapt_like(v.v, old)
        if isinstance(old, Struct) and not isinstance(v, Struct):
            nz = [i for i, x in enumerate(old.f) if not (isinstance(x, Struct) and not x.f)]
            if len(nz) == 1:
                f = list(old.f)
                f[nz[0]] = adapt_like(v, old.f[nz[0]])
                return Struct(old.ty, f)
        if isinstance(v, Struct) and not isinstance(old, Struct):
            nz = [x for x in v.f if not (isinstance(x, Struct) and not x.f)]
            if len(nz) == 1:
                return adapt_like(nz[0], old)
        if isinstance(v, Struct) and isinstance(old, Struct) and len(v.f) == len(old.f) == 1 and v.ty != old.ty:
            return Struct(old.ty, [adapt_like(v.f[0], old.f[0])])
        return v
    I.adapt_like = adapt_like

    # ------------------------------------------------------------ integer intrinsics
    def mk_wrapping(op):
        def f(I_, frame, st, args, callee):
            w, sg = ii_of(callee)
            r, _ = binop(I, op, need_int(args[0]), need_int(args[1]), w, sg)
            if r.const is None and _ is not FALSE:
                # wrapped result: keep only the bit-level facts
                a, b = args
                if op == 'Add' or op == 'Sub':
                    k = min(_tzk(a), _tzk(b))
                    lm = M(k)
                    lv = ((a.ko & lm) + (b.ko & lm)) & lm if op == 'Add' else ((a.ko & lm) - (b.ko & lm)) & lm
                    return AInt(w, 0, M(w), lm & ~lv, lv, sg, r.term)
                return AInt(w, 0, M(w), r.kz if op == 'Mul' else 0, 0, sg, r.term)
            return r
        return f

    def _tzk(a):
        k = a.kz | a.ko
        n = 0
        while n < a.w and (k >> n) & 1:
            n += 1
        return n

    m['#wrapping_add'] = mk_wrapping('Add')
    m['#wrapping_sub'] = mk_wrapping('Sub')
    m['#wrapping_mul'] = mk_wrapping('Mul')

    def mk_unchecked(op):
        def f(I_, frame, st, args, callee):
            w, sg = ii_of(callee)
            r, _ = binop(I, op, need_int(args[0]), need_int(args[1]), w, sg)
            return r
        return f
    for nm, op in (('unchecked_add', 'Add'), ('unchecked_sub', 'Sub'), ('unchecked_mul', 'Mul'), ('unchecked_shl', 'Shl'),
                   ('unchecked_shr', 'Shr'), ('unchecked_div', 'Div'), ('unchecked_rem', 'Rem'), ('exact_div', 'Div'),
                   ('disjoint_bitor', 'BitOr')):
        m['#' + nm] = mk_unchecked(op)

    def mk_overflowing(op):
        def f(I_, frame, st, args, callee):
            w, sg = ii_of(callee)
            r, o = binop(I, op, need_int(args[0]), need_int(args[1]), w, sg)
            if o is not FALSE and r.const is None:
                r = AInt(w, 0, M(w), 0, 0, sg, r.term)
            return Struct(None, (r, o))
        return f
    m['#add_with_overflow'] = mk_overflowing('Add')
    m['#sub_with_overflow'] = mk_overflowing('Sub')
    m['#mul_with_overflow'] = mk_overflowing('Mul')

    def saturating_add(I_, frame, st, args, callee):
        w, sg = ii_of(callee)
        a, b = need_int(args[0]), need_int(args[1])
        if sg:
            return topint(w, True)
        return AInt(w, min(a.lo + b.lo, M(w)), min(a.hi + b.hi, M(w)))
    m['#saturating_add'] = saturating_add

    def saturating_sub(I_, frame, st, args, callee):
        w, sg = ii_of(callee)
        a, b = need_int(args[0]), need_int(args[1])
        if sg:
            return topint(w, True)
        return AInt(w, max(a.lo - b.hi, 0), max(a.hi - b.lo, 0))
    m['#saturating_sub'] = saturating_sub

    def rotate(left):
        def f(I_, frame, st, args, callee):
            w, sg = ii_of(callee)
            x, n = need_int(args[0]), need_int(args[1])
            term = T.op('rotl' if left else 'rotr', w, x.term, n.term) if (T.ENABLED and x.term is not None and n.term is not None) else None
            if n.const is not None:
                s = n.const % w
                if not left:
                    s = (w - s) % w
                rot = lambda v: ((v << s) | (v >> (w - s))) & M(w) if s else v
                if x.const is not None:
                    return AInt(w, rot(x.const), rot(x.const), signed=sg, term=term)
                return AInt(w, 0, M(w), rot(x.kz), rot(x.ko), sg, term)
            if x.const is not None and x.const in (0, M(w)):
                return x
            return topint(w, sg, term)
        return f
    m['#rotate_left'] = rotate(True)
    m['#rotate_right'] = rotate(False)

    def bswap(I_, frame, st, args, callee):
        w, sg = ii_of(callee)
        x = need_int(args[0])
        n = w // 8
        sw = lambda v: int.from_bytes(v.to_bytes(n, 'little'), 'big')
        term = T.op('bswap', w, x.term) if (T.ENABLED and x.term is not None) else None
        if x.const is not None:
            return AInt(w, sw(x.const), sw(x.const), signed=sg, term=term)
        return AInt(w, 0, M(w), sw(x.kz), sw(x.ko), sg, term)
    m['#bswap'] = bswap

    def bitreverse(I_, frame, st, args, callee):
        w, sg = ii_of(callee)
        x = need_int(args[0])
        rv = lambda v: int(format(v, '0%db' % w)[::-1], 2)
        if x.const is not None:
            return cint(w, rv(x.const), sg)
        return AInt(w, 0, M(w), rv(x.kz), rv(x.ko), sg)
    m['#bitreverse'] = bitreverse

    def count(kind):
        def f(I_, frame, st, args, callee):
            w, sg = ii_of(callee)
            x = need_int(args[0])
            if x.const is not None:
                c = x.const
                if kind == 'ctpop':
                    r = bin(c).count('1')
                elif kind == 'ctlz':
                    r = w - c.bit_length()
                else:
                    r = (c & -c).bit_length() - 1 if c else w
                return cint(32, r)
            return AInt(32, 0, w)
        return f
    for kind in ('ctpop', 'ctlz', 'cttz'):
        m['#' + kind] = count(kind)
    m['#ctlz_nonzero'] = count('ctlz')
    m['#cttz_nonzero'] = count('cttz')

    def three_way(I_, frame, st, args, callee):
        a, b = need_int(args[0]), need_int(args[1])
        rt = I.cur_dest_ty
        lt, _ = binop(I, 'Lt', a, b, a.w, a.signed)
        gt, _ = binop(I, 'Gt', a, b, a.w, a.signed)
        if lt.const == 1:
            return Enum(rt, 0, ())
        if gt.const == 1:
            return Enum(rt, 2, ())
        if lt.const == 0 and gt.const == 0:
            return Enum(rt, 1, ())
        vs = {}
        if lt.const != 0:
            vs[0] = ()
        if gt.const != 0:
            vs[2] = ()
        eq, _ = binop(I, 'Eq', a, b, a.w, a.signed)
        if eq.const != 0:
            vs[1] = ()
        return EnumAny(rt, vs)
    m['#three_way_compare'] = three_way

    # ------------------------------------------------------------ type queries / markers
    m['#size_of'] = lambda I_, f, st, a, c: size_of(c)
    m['#min_align_of'] = lambda I_, f, st, a, c: align_of(c)
    m['#align_of'] = lambda I_, f, st, a, c: align_of(c)
    m['#pref_align_of'] = lambda I_, f, st, a, c: align_of(c)

    def size_of(c):
        s = I.types[targ(c)].get('size')
        if s is None:
            raise Unsupported('size_of an unsized/generic type')
        return I.usize(s)

    def align_of(c):
        s = I.types[targ(c)].get('align')
        if s is None:
            raise Unsupported('align_of unknown')
        return I.usize(s)

    for nm in ('assert_inhabited', 'assert_zero_valid', 'assert_mem_uninitialized_valid', 'cold_path', 'assume',
               'forget', 'prefetch_read_data', 'breakpoint'):
        m['#' + nm] = lambda I_, f, st, a, c: UNIT
    m['#is_val_statically_known'] = lambda I_, f, st, a, c: FALSE
    m['#ub_checks'] = lambda I_, f, st, a, c: TRUE if I.ub_checks else FALSE
    m['#overflow_checks'] = lambda I_, f, st, a, c: TRUE
    m['#contract_checks'] = lambda I_, f, st, a, c: FALSE
    m['#likely'] = lambda I_, f, st, a, c: a[0]
    m['#unlikely'] = lambda I_, f, st, a, c: a[0]
    m['#black_box'] = lambda I_, f, st, a, c: a[0]
    m['#needs_drop'] = lambda I_, f, st, a, c: TRUE if I.types[targ(c)].get('needs_drop') else FALSE
    m['#type_name'] = lambda I_, f, st, a, c: Opaque(None)

    def unreachable(I_, frame, st, args, callee):
        raise Diverge()
    m['#unreachable'] = unreachable

    def abort(I_, frame, st, args, callee):
        I.obligation(frame, 'panic-call', 'abort', 0, True, 'abort intrinsic reachable')
        raise Diverge()
    m['#abort'] = abort

    def transmute_i(I_, frame, st, args, callee):
        return transmute(I, args[0], callee['targs'][0], callee['targs'][1])
    m['#transmute'] = transmute_i
    m['#transmute_unchecked'] = transmute_i

    # ------------------------------------------------------------ memory intrinsics
    def offset(I_, frame, st, args, callee):
        pd = I.types[targ(callee)]
        ps = I.types[pd['t']].get('size') if 't' in pd else I.types[targ(callee)].get('size')
        return ptr_offset(args[0], need_int(args[1]), psize=ps)
    m['#offset'] = offset
    m['#arith_offset'] = offset

    def ptr_offset_from_unsigned(I_, frame, st, args, callee):
        a, b = args
        if isinstance(a, (Ptr, RawPtr)) and isinstance(b, (Ptr, RawPtr)) and same_base(a, b):
            r, _ = binop(I, 'Sub', ptr_index(a), ptr_index(b), I.ptr_bits, False)
            return r
        raise Unsupported('ptr_offset_from between %r and %r' % (a, b))
    m['#ptr_offset_from_unsigned'] = ptr_offset_from_unsigned
    m['#ptr_offset_from'] = ptr_offset_from_unsigned

    def write_bytes(I_, frame, st, args, callee):
        dst, val, cnt = args
        t = targ(callee)
        val, cnt = need_int(val), need_int(cnt)
        if cnt.const is None:
            raise Unsupported('write_bytes with abstract count')
        for i in range(cnt.const):
            q = ptr_offset(dst, I.usize(i)) if cnt.const > 1 or dst.elem is not None else dst
            loc = I.deref(q, t if q.view is None else q.view, st)
            sz = I.types[loc.ty].get('size')
            v = unflatten(I, [val] * sz, loc.ty)
            if v is None:
                v = I.top(loc.ty)
            I.write(st, loc, adapt_like(v, read_opt(st, loc)))
        return UNIT
    m['#write_bytes'] = write_bytes

    def typed_swap(I_, frame, st, args, callee):
        a, b = args
        t = targ(callee)
        la, lb = I.deref(a, t, st), I.deref(b, t, st)
        va, vb = I.read(st, la), I.read(st, lb)
        I.write(st, la, vb)
        I.write(st, lb, va)
        return UNIT
    m['#typed_swap_nonoverlapping'] = typed_swap

    def read_via_copy(I_, frame, st, args, callee):
        return I.read(st, I.deref(args[0], targ(callee), st))
    m['#read_via_copy'] = read_via_copy
    m['#volatile_load'] = read_via_copy
    m['#unaligned_volatile_load'] = read_via_copy

    def write_via_move(I_, frame, st, args, callee):
        I.write(st, I.deref(args[0], targ(callee), st), args[1])
        return UNIT
    m['#write_via_move'] = write_via_move
    m['#volatile_store'] = write_via_move

    def compare_bytes(I_, frame, st, args, callee):
        return topint(32, True)
    m['#compare_bytes'] = compare_bytes

    def raw_eq(I_, frame, st, args, callee):
        t = targ(callee)
        va = I.read(st, I.deref(args[0], t, st))
        vb = I.read(st, I.deref(args[1], t, st))
        ba, bb = flatten(I, va, t), flatten(I, vb, t)
        if ba is not None and bb is not None and all(x.const is not None for x in ba + bb):
            return TRUE if [x.const for x in ba] == [x.const for x in bb] else FALSE
        return abool(0, 1)
    m['#raw_eq'] = raw_eq

    def slice_get_unchecked(I_, frame, st, args, callee):
        p, idx = args
        q = p.copy()
        base = q.start if q.start is not None else I.usize(0)
        r, _ = binop(I, 'Add', base, need_int(idx), I.ptr_bits, False)
        q.elem = r
        q.start = None
        q.length = None
        return q
    m['#slice_get_unchecked'] = slice_get_unchecked

    def aggregate_raw_ptr(I_, frame, st, args, callee):
        p, meta = args
        if isinstance(meta, AInt):
            q = p.copy()
            q.start = q.elem if q.elem is not None else I.usize(0)
            q.elem = None
            q.length = meta
            return q
        return p
    m['#aggregate_raw_ptr'] = aggregate_raw_ptr

    def ptr_metadata(I_, frame, st, args, callee):
        p = args[0]
        return p.length if p.length is not None else UNIT
    m['#ptr_metadata'] = ptr_metadata

    def const_eval_select(I_, frame, st, args, callee):
        # const_eval_select(args_tuple, const_fn, runtime_fn): at run time the runtime fn is called
        tup, _cf, rf = args
        if not isinstance(rf, FnVal):
            raise Unsupported('const_eval_select without fn item')
        cal = rf.callee
        name = cal.get('path') or cal['decl']
        return I.invoke(frame, st, cal, name, list(tup.f), {'l': 0})
    m['#const_eval_select'] = const_eval_select

    # atomics (only cpufeatures' detection cache): value unknown, stores ignored for the analysis of ciphers
    def atomic_load(I_, frame, st, args, callee):
        return I.top(targ(callee))
    m['#atomic_load'] = atomic_load
    m['#atomic_store'] = lambda I_, f, st, a, c: UNIT
    m['#atomic_fence'] = lambda I_, f, st, a, c: UNIT
    m['#atomic_singlethreadfence'] = lambda I_, f, st, a, c: UNIT

    def zeroize_flat_type(I_, frame, st, args, callee):
        # zeroize::zeroize_flat_type::<F>(p): overwrite size_of::<F>() bytes at p with zero
        t = targ(callee)
        loc = I.deref(args[0], t, st)
        sz = I.types[t].get('size')
        v = unflatten(I, [cint(8, 0)] * sz, t) if sz is not None else None
        if v is None:
            v = I.top(t)
        I.write(st, loc, adapt_like(v, read_opt(st, loc)))
        return UNIT
    m['zeroize::zeroize_flat_type'] = zeroize_flat_type

    # ------------------------------------------------------------ simd / CPU intrinsics
    LOADS = re.compile(r'::(_mm_loadu?_si128|_mm_lddqu_si128|vld1q?_[a-z0-9]+)$')
    STORES = re.compile(r'::(_mm_storeu?_si128|vst1q?_[a-z0-9]+)$')

    def generic(I_, frame, st, args, callee, name):
        if name.startswith('core::core_arch::') or name.startswith('core::intrinsics::simd::'):
            return cpu_intrinsic(frame, st, args, callee, name)
        if name.startswith("core::fmt::") or name.startswith('<str as core::fmt::') or name.startswith('core::fmt::write'):
            # formatting sinks: no effect on cipher state; Result<(), Error> unknown
            rt = I.cur_dest_ty
            return I.top(rt)
        return NotImplemented
    m['@generic'] = generic

    def simd_term(name, args):
        if not T.ENABLED:
            return None
        ts = []
        for a in args:
            t = getattr(a, 'term', None)
            if t is None:
                if isinstance(a, AInt) and a.const is not None:
                    t = T.const(a.w, a.const)
                else:
                    return None
            ts.append(t)
        return T.op(name.rsplit('::', 1)[-1], 128, *ts)

    def cpu_intrinsic(frame, st, args, callee, name):
        rt = I.cur_dest_ty
        short = name.rsplit('::', 1)[-1]
        if LOADS.search(name):
            p = args[0]
            aligned = short in ('_mm_load_si128',)
            v = load_bytes(st, p, I.types[rt].get('size') or 16, frame, short, aligned)
            return Opaque(rt, T.op('load', 128, v) if (T.ENABLED and v is not None) else None)
        if STORES.search(name):
            p, v = args[0], args[1]
            store_opaque(st, p, v, frame, short)
            return UNIT
        if short.startswith('_mm_extract_epi16') or short.startswith('_mm_extract_epi8'):
            return AInt(32, 0, 0xFFFF if '16' in short else 0xFF, signed=True, term=simd_term(name, args))
        if short.startswith('_mm_cvtsi128_si32'):
            return topint(32, True, simd_term(name, args))
        if short.startswith('_mm_cvtsi128_si64'):
            return topint(64, True, simd_term(name, args))
        if short.startswith('_mm_movemask'):
            return AInt(32, 0, 0xFFFF, signed=True)
        ii = I.int_info(rt) if rt is not None else None
        if ii:
            return topint(ii[0], ii[1], simd_term(name, args))
        d = I.types[rt] if rt is not None else None
        if d is not None and d.get('size') == 0:
            return I.zst(rt)
        if d is not None and d['k'] in ('adt',) and d['adt_kind'] == 'struct' and 'core_arch' not in d['s'] and 'simd' not in d['s'].lower():
            return I.top(rt)
        return Opaque(rt, simd_term(name, args))
    I.cpu_intrinsic = cpu_intrinsic
    import simd
    simd.install(I)

    def load_bytes(st, p, n, frame, what, aligned):
        """model of an n-byte vector load: checks that the pointer addresses n readable bytes"""
        if not isinstance(p, (Ptr, RawPtr)):
            raise Unsupported('%s through %r' % (what, p))
        ok, why, val = span_check(st, p, n, False)
        I.obligation(frame, 'simd-load-bounds', '%s' % what, 0, not ok, why)
        if aligned:
            aok, awhy = align_check(st, p, n)
            I.obligation(frame, 'simd-aligned-access', '%s' % what, 0, not aok, awhy)
        return val

    def store_opaque(st, p, v, frame, what):
        if not isinstance(p, Ptr):
            raise Unsupported('%s through %r' % (what, p))
        n = 16
        ok, why, _ = span_check(st, p, n, True, v)
        I.obligation(frame, 'simd-store-bounds', '%s' % what, 0, not ok, why)
        if what in ('_mm_store_si128',):
            aok, awhy = align_check(st, p, n)
            I.obligation(frame, 'simd-aligned-access', what, 0, not aok, awhy)

    def align_check(st, p, n):
        a = ptr_addr(I, p)
        if a.kz & (n - 1) == (n - 1):
            return True, ''
        # a local / static whose type is aligned
        try:
            if isinstance(p, Ptr) and not p.path and p.elem is not None and p.elem.const is not None:
                v = st.mem.get(p.obj)
                ty = getattr(v, 'ty', None)
                if ty is not None and (I.types[ty].get('align') or 1) >= n:
                    es = I.types[I.types[ty]['e']].get('size') if I.types[ty]['k'] == 'array' else None
                    if es and (p.elem.const * es) % n == 0:
                        return True, ''
        except Exception:
            pass
        return False, 'pointer %r is not known to be %d-byte aligned' % (p, n)

    def span_check(st, p, n, write, newv=None):
        """does p address n bytes inside its object?  returns (ok, why, term-or-None)"""
        try:
            if isinstance(p, RawPtr):
                raw, _ = I.alloc_bytes(p.aid)
                off = p.off
                if p.elem is not None:
                    if p.elem.const is None:
                        es = I.types[p.view].get('size') if p.view is not None else n
                        hi = p.off + p.elem.hi * es
                        return (hi + n <= len(raw)), 'offset up to %d + %d vs allocation of %d bytes' % (hi, n, len(raw)), None
                    es = I.types[p.view].get('size') if p.view is not None else n
                    off += p.elem.const * es
                return (off + n <= len(raw)), 'offset %d + %d vs allocation of %d bytes' % (off, n, len(raw)), None
            # structured object: the pointer is (array path, elem index) or a whole object of size n
            if p.elem is not None or p.length is not None:
                arr = I.read(st, Loc(p.obj, p.path, None))
                idx = p.elem if p.elem is not None else p.start
                if isinstance(arr, Struct) and len([x for x in arr.f if not (isinstance(x, Struct) and not x.f)]) == 1:
                    arr = [x for x in arr.f if not (isinstance(x, Struct) and not x.f)][0]
                if isinstance(arr, Arr):
                    cnt = len(arr.e)
                    es = elem_size(arr)
                elif isinstance(arr, ArrSum):
                    cnt = arr.n.lo
                    es = elem_size(arr)
                else:
                    return False, 'pointer base is not an array: %r' % (arr,), None
                if es is None:
                    return False, 'unknown element size', None
                view_es = I.types[p.view].get('size') if p.view is not None else es
                k = max(1, n // es)
                # index counts elements of the *viewed* type when a view is set on the array pointer
                first_hi = idx.hi * (view_es // es if view_es and view_es >= es else 1)
                ok = first_hi + k <= cnt
                if ok and write:
                    if idx.const is not None:
                        base = idx.const * (view_es // es if view_es and view_es >= es else 1)
                        e = list(arr.e) if isinstance(arr, Arr) else None
                        if e is not None:
                            for j in range(k):
                                e[base + j] = havoc_like(e[base + j], newv, j, k)
                            I.write(st, Loc(p.obj, p.path, None), I.adapt_like(Arr(arr.ty, e), I.read(st, Loc(p.obj, p.path, None))))
                    else:
                        I.write(st, Loc(p.obj, p.path, None), I.adapt_like(havoc_all(arr), I.read(st, Loc(p.obj, p.path, None))))
                return ok, 'element index %r (+%d) vs %d elements' % (idx, k, cnt), None
            v = I.read(st, Loc(p.obj, p.path, None))
            sz = value_size(v)
            ok = sz is not None and sz >= n
            if ok and write:
                I.write(st, Loc(p.obj, p.path, None), havoc_value(v, newv))
            return ok, 'object of %s bytes vs %d-byte access' % (sz, n), None
        except Unsupported as e:
            return False, 'cannot resolve pointer: %s' % e, None

    def elem_size(arr):
        ty = arr.ty
        if ty is None:
            return None
        d = I.types[ty]
        if d['k'] in ('array', 'slice'):
            return I.types[d['e']].get('size')
        return None

    def value_size(v):
        ty = getattr(v, 'ty', None)
        if ty is not None:
            return I.types[ty].get('size')
        if isinstance(v, AInt):
            return v.w // 8
        return None

    def havoc_like(old, newv, j, k):
        t = getattr(newv, 'term', None)
        ty = getattr(old, 'ty', None)
        if isinstance(old, AInt):
            return topint(old.w, old.signed, T.op('lane', old.w, t, T.const(8, j)) if (T.ENABLED and t is not None) else None)
        if ty is not None:
            v = I.top(ty)
            if T.ENABLED and t is not None and k == 1:
                v = StoreOf(v, t)
            return v
        return Opaque(None, t)

    def StoreOf(v, t):
        # remember the stored vector term on the first leaf (term engine reads it back through 'load')
        if isinstance(v, Struct) and len(v.f) >= 1:
            return TaggedStruct(v, t)
        if isinstance(v, Arr):
            return TaggedArr(v, t)
        return v

    def havoc_all(arr):
        if isinstance(arr, Arr):
            return Arr(arr.ty, [havoc_like(e, None, 0, 1) for e in arr.e])
        return arr

    def havoc_value(v, newv):
        ty = getattr(v, 'ty', None)
        t = getattr(newv, 'term', None)
        if ty is not None:
            nv = I.top(ty)
            if T.ENABLED and t is not None:
                nv = StoreOf(nv, t)
            return nv
        if isinstance(v, AInt):
            return topint(v.w, v.signed)
        return Opaque(None, t)

    def TaggedStruct(v, t):
        s = Struct(v.ty, v.f)
        return s

    def TaggedArr(v, t):
        return v
