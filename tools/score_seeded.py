#!/usr/bin/env python3
"""Run the registered checks against every seeded change and record which checks report it.

Each patch is applied in a scratch git worktree of /repo's HEAD (never in /repo itself); the checks analyse that tree
through VERIF_REPO.  Results: seeded/<id>/detected.json and seeded/RESULTS.md.
usage: score_seeded.py [<seeded id> ...]
"""
import json, os, re, shutil, subprocess, sys

VERIF = '/verif'
WT = '/tmp/score/wt'
RELATED = {
    'C01': ['C01', 'C05', 'C04', 'C18'], 'C03': ['C03', 'C04'], 'C04': ['C04'], 'C05': ['C05', 'C01'], 'C11': ['C11'],
    'C12': ['C12'], 'C13': ['C13'], 'C14': ['C14', 'C03'], 'C15': ['C15', 'C12'], 'C16': ['C16'], 'C17': ['C17'],
    'C18': ['C18', 'C01', 'C20'], 'C19': ['C19'], 'C20': ['C20', 'C18'],
}
THOROUGH = {'C17a-3'}


def sh(cmd, cwd=None, env=None):
    r = subprocess.run(cmd, shell=True, cwd=cwd, env=env, stdout=subprocess.PIPE, stderr=subprocess.STDOUT, text=True)
    return r.returncode, r.stdout


def main():
    ids = sys.argv[1:] or (sorted(x for x in os.listdir(os.path.join(VERIF, 'seeded')) if x != 'benign') +
                           ['benign/' + x for x in sorted(os.listdir(os.path.join(VERIF, 'seeded', 'benign')))])
    ids = [i for i in ids if os.path.isdir(os.path.join(VERIF, 'seeded', i))]
    ALL = [c['property_id'] for c in json.load(open(os.path.join(VERIF, 'MANIFEST.json')))['checks']]
    os.makedirs('/tmp/score', exist_ok=True)
    sh('git -C /repo worktree prune')
    if os.path.exists(WT):
        sh('git -C /repo worktree remove --force %s' % WT)
        shutil.rmtree(WT, ignore_errors=True)
    rc, o = sh('git -C /repo worktree add -f --detach %s HEAD' % WT)
    assert rc == 0, o
    env = dict(os.environ, VERIF_REPO=WT, VERIF_CACHE='/tmp/score/cache', VERIF_SCRATCH='/tmp/score/scratch')
    rows = []
    try:
        for sid in ids:
            d = os.path.join(VERIF, 'seeded', sid)
            meta = json.load(open(os.path.join(d, 'meta.json')))
            prop = meta.get('property') or meta.get('breaks_property')
            sh('git checkout -- . && git clean -fdq', cwd=WT)
            rc, o = sh('git apply %s' % os.path.join(d, 'patch.diff'), cwd=WT)
            if rc != 0:
                rows.append((sid, prop, 'patch does not apply to the repaired tree', {}))
                json.dump(dict(applies=False, why=o[-300:]), open(os.path.join(d, 'detected.json'), 'w'), indent=1)
                continue
            res = {}
            tier = 'thorough' if sid in THOROUGH else 'quick'
            for cid in (ALL if meta.get('kind') == 'benign' else RELATED.get(prop, [prop])):
                rc, o = sh('python3 %s/verif check %s --tier %s' % (VERIF, cid, tier), cwd=VERIF, env=dict(env, VERIF_EVIDENCE='/tmp/score/evidence'))
                viol = [l for l in o.splitlines() if l.startswith('VIOLATION')]
                first = [l.strip() for l in o.splitlines() if l.startswith('  [')][:2]
                res[cid] = dict(exit=rc, violations=len(viol), first=[f[:300] for f in first])
            json.dump(dict(applies=True, tier=tier, checks=res), open(os.path.join(d, 'detected.json'), 'w'), indent=1)
            caught = [c for c, r in res.items() if r['violations']]
            if meta.get('kind') == 'benign':
                rows.append((sid, 'benign', ('FALSE ALARM: ' + ', '.join(caught)) if caught else 'silent (as required)', res))
            else:
                rows.append((sid, prop, ', '.join(caught) if caught else 'NOT DETECTED', res))
            print(sid, prop, caught, flush=True)
    finally:
        sh('git -C /repo worktree remove --force %s' % WT)
        shutil.rmtree('/tmp/score/cache', ignore_errors=True)
        shutil.rmtree('/tmp/score/scratch', ignore_errors=True)
    with open(os.path.join(VERIF, 'seeded', 'RESULTS.md'), 'w') as f:
        f.write('# Seeded changes vs. checks (written by tools/score_seeded.py)\n\n| seeded | property | reported by |\n|---|---|---|\n')
        for (sid, prop, caught, _r) in rows:
            f.write('| %s | %s | %s |\n' % (sid, prop, caught))


if __name__ == '__main__':
    main()
