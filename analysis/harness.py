"""Entry-state construction and drivers for the abstract interpreter."""
import time, traceback
from facts import *
from interp import *
from values import *

ENC = 'cipher::block::backends::BlockCipherEncBackend'
DEC = 'cipher::block::backends::BlockCipherDecBackend'


def backend_entries(m, reach=None):
    """monomorphic instances of the backend entry points defined in /repo crates"""
    out = []
    for f in m.fns:
        if f['crate'] in REPO_CRATES and f.get('impl_trait') in (ENC, DEC) and \
                f.get('name') in ('encrypt_block', 'decrypt_block', 'encrypt_par_blocks', 'decrypt_par_blocks',
                                  'encrypt_tail_blocks', 'decrypt_tail_blocks'):
            if reach is None or f['id'] in reach:
                out.append(f)
    return out


def run_entry(m, f, budget=3_000_000, alias_inout=False, slice_len=None, arg_hook=None):
    """interpret function f on unknown arguments; returns (interp, result or exception)"""
    I = Interp(m, budget=budget)
    st = State()
    I.entry_state = st
    I.slice_len = slice_len
    body = f['mir']
    args = []
    names = dict((l, n) for l, n in body.get('names', []))
    try:
        for i in range(1, body['argc'] + 1):
            nm = names.get(i, 'arg%d' % i)
            v = I.top(body['locals'][i], nm)
            args.append(v)
        if alias_inout:
            args = [alias_inout_value(I, st, a) for a in args]
        if arg_hook:
            args = arg_hook(I, st, args)
        I.entry_state = None
        r = I.call_fn(f['id'], args, st)
        return I, ('ok', r, st)
    except Diverge:
        return I, ('diverge', None, st)
    except Unsupported as e:
        return I, ('unsupported', str(e) + '  [in %s]' % ' > '.join(I.callstack[-4:]), st)
    except Budget:
        return I, ('budget', 'step budget exceeded', st)
    except JoinFail as e:
        return I, ('unsupported', 'join: %s [in %s]' % (e, ' > '.join(I.callstack[-4:])), st)
    except RecursionError:
        return I, ('unsupported', 'python recursion limit', st)


def alias_inout_value(I, st, v):
    """make the in and out pointers of an InOut / InOutBuf argument point to the same object (in-place call)"""
    if isinstance(v, Struct) and v.ty is not None and I.types[v.ty]['s'].startswith('inout::'):
        ptrs = [i for i, x in enumerate(v.f) if isinstance(x, Ptr)]
        if len(ptrs) == 2:
            f = list(v.f)
            f[ptrs[0]] = f[ptrs[1]]
            return Struct(v.ty, f)
    return v


if __name__ == '__main__':
    import sys, collections
    cfgname = sys.argv[1]
    pat = sys.argv[2] if len(sys.argv) > 2 else ''
    F = Facts(cfgname)
    m = F.mono
    reasons = collections.Counter()
    tot = ok = 0
    for f in backend_entries(m):
        if pat not in pretty(f['full']):
            continue
        t0 = time.time()
        try:
            I, res = run_entry(m, f)
        except Exception as e:
            traceback.print_exc()
            print('CRASH', pretty(f['full'])[:100])
            continue
        tot += 1
        nfail = sum(1 for s in I.sites.values() if s.fails)
        if res[0] == 'ok' and nfail == 0:
            ok += 1
        print('%-9s %5.1fs %7d steps %4d sites %3d undischarged  %s' % (res[0], time.time() - t0, I.steps, len(I.sites), nfail, pretty(f['full'])[:90]))
        if res[0] in ('unsupported', 'budget'):
            print('      ', res[1][:300])
            reasons[res[1].split('[')[0][:80]] += 1
        for s in list(I.sites.values()):
            if s.fails:
                print('       FAIL %s | %s | %s' % (s.key[0][-50:], s.desc[:60], s.why[:160]))
    print(ok, '/', tot, 'clean')
    for r, c in reasons.most_common():
        print(c, r)
