"""Engine canaries: the abstract interpreter must flag every `bad_*` function of roots/src/canary.rs and discharge
every `good_*` one, on every run (see that file).  Slices get an unknown length carried as the linear term `len`."""
from facts import *
from engine import *
from engine import run as run_engine
from values import *
import equiv, engine
import terms as T

EXPECTED = 24     # 12 pairs


def run_canaries(m):
    """-> list of (name, kind, verdict ok?, detail)"""
    out = []
    names = sorted(n for n in m.roots if n.startswith('verif_root_canary__') and '__pw_' not in n)
    for nm in names:
        kind = 'bad' if '__bad_' in nm else 'good'
        inst = m.roots[nm]
        f = m.fn(inst)
        with equiv.TermMode():
            engine._INTERPS.clear()
            I = mk_interp(m, 2_000_000)
            st = State()
            over = {}
            for i in range(1, f['mir']['argc'] + 1):
                d = I.types[f['mir']['locals'][i]]
                if d['k'] in ('ref', 'ptr') and I.types[d['t']]['k'] == 'slice':
                    w = I.usize(0).w
                    over[i] = slice_arg(I, st, AInt(w, 0, (1 << (w - 1)) - 1, term=T.sym('len', w)), 'd')
            args = default_args(I, st, f, over)
            status, r = run_engine(I, inst, args, st)
            fails = failed_sites(I)
        engine._INTERPS.clear()
        if status in ('unsupported', 'budget'):
            out.append((nm, kind, False, '%s: %s' % (status, str(r)[:200])))
        elif kind == 'bad':
            flagged = bool(fails) or status == 'diverge'
            out.append((nm, kind, flagged, 'flagged: %s' % (fails[0].desc if fails else status) if flagged else 'NOT flagged'))
        else:
            out.append((nm, kind, not fails and status == 'ok', 'discharged (%d edges)' % len(I.sites) if not fails and status == 'ok'
                        else 'spurious: %s %s' % (status, fails[0].desc if fails else '')))
    return out


def report(chk, cfgname, m):
    res = run_canaries(m)
    if len(res) < EXPECTED:
        chk.fail_closed('engine-canary', '%s|count' % cfgname, 'only %d of %d engine canaries are present in the export' % (len(res), EXPECTED))
    for (nm, kind, ok, detail) in res:
        key = '%s|%s' % (cfgname, nm.replace('verif_root_canary__', ''))
        if ok:
            chk.ok('engine-canary', key, dict(canary=nm.replace('verif_root_canary__', ''), expected='flagged' if kind == 'bad' else 'discharged', got=detail))
        else:
            chk.fail_closed('engine-canary', key, 'engine canary %s (%s must be %s): %s' % (nm, kind, 'flagged' if kind == 'bad' else 'discharged', detail))


def report_pw(chk, cfgname, m):
    """canaries of the bit-level engine: the S-box inverse lemma must hold for the inverse pair, fail for the non-inverse
    pair and be undecided for the function that is not a position-wise boolean circuit"""
    import c01
    fns = {n.replace('verif_root_canary__', ''): m.fn(m.roots[n]) for n in m.roots if n.startswith('verif_root_canary__pw_')}
    want = [('pw_f', 'pw_f_inv', True), ('pw_f_inv', 'pw_f', True), ('pw_f', 'pw_f_notinv', False), ('pw_notpure', 'pw_f_inv', None)]
    for (a, b, expected) in want:
        key = '%s|lemma %s(%s(u)) = u' % (cfgname, b, a)
        if a not in fns or b not in fns:
            chk.fail_closed('engine-canary', key, 'bit-level canary %s / %s missing from the export' % (a, b))
            continue
        with equiv.TermMode():
            ok, detail = c01.pw_lemma(m, fns[a], fns[b], 'inplace', 3)
        if ok is expected:
            chk.ok('engine-canary', key, dict(canary='%s, %s' % (a, b), expected=str(expected), got=detail))
        else:
            chk.fail_closed('engine-canary', key, 'bit-level canary: lemma %s(%s(u)) = u gave %s (%s), expected %s' % (b, a, ok, detail, expected))
