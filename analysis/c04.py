"""C04 -- multi-block and buffer-to-buffer calls equal per-block calls (clause level).

The `cipher` / `inout` crates turn every public call shape into backend calls on InOut; they are the trusted base.
 A  override discipline: a /repo backend impl overrides only `*_block` and (when its ParBlocksSize is not 1)
    `*_par_blocks`; the tail / in-place methods are the `cipher` crate's per-block loops.  (An override of those is
    reported: it is not proven equivalent.)
 L  lane agreement (engine L3): for every backend that overrides `*_par_blocks` (AES-NI, AES fixslice, Kuznyechik ...),
    the term stored to output lane i by the parallel routine equals the term the single-block routine stores, with the
    input replaced by input lane i -- for every lane.  This also shows lane i depends on no other lane.
    For batch routines that interleave lanes in one bitsliced state (AES fixslice) see fixslice_lanes (bit-level).
 B  buffer discipline: (1) interpreted with separate buffers, every backend entry leaves the input buffer object
    untouched; (2) a reference obtained from `InOut::get_out()` is never re-borrowed shared or handed to a reader
    (output is written, never read as input); (3) with Herbrand terms, no output byte term mentions the initial content
    of the output buffer; (4) the single-block routine yields the same output terms in place (output pointer = input
    pointer) and with separate buffers -- so every buffer-to-buffer shape is the in-place function.
"""
import os
from facts import *
import equiv, engine
import terms as T
from values import *
from interp import State, Ptr
from ops import flatten

ENC, DEC = equiv.ENC, equiv.DEC
PAR_UNDECIDED = ('aes::soft::',)     # fixslice batches interleave lanes in one bitsliced state


def mentions(t, prefix, seen=None):
    """does a term mention a symbol whose name starts with prefix"""
    if seen is None:
        seen = set()
    if not isinstance(t, tuple) or id(t) in seen:
        return False
    seen.add(id(t))
    if t[0] == 's':
        return t[1].startswith(prefix)
    if t[0] == 'c':
        return False
    if t[0] == 'cat':
        return any(mentions(a, prefix, seen) for (a, _, _) in t[2])
    if t[0] == 'lin':
        return any(mentions(a, prefix, seen) for (a, _) in t[3])
    return any(mentions(a, prefix, seen) for a in t[2:] if isinstance(a, tuple))


def backend_pairs(m):
    """(self type id, trait, single fn, par fn or None) for every backend impl in /repo reachable from the roots"""
    by = {}
    for f in m.fns:
        if f['crate'] in REPO_CRATES and f.get('impl_trait') in (ENC, DEC) and f.get('name') in (
                'encrypt_block', 'decrypt_block', 'encrypt_par_blocks', 'decrypt_par_blocks'):
            st = m.ty(f['mir']['locals'][1])['t']
            by.setdefault((st, f['impl_trait']), {})[f['name']] = f
    out = []
    for (st, tr), d in sorted(by.items()):
        single = d.get('encrypt_block') or d.get('decrypt_block')
        par = d.get('encrypt_par_blocks') or d.get('decrypt_par_blocks')
        if single is not None:
            out.append((st, tr, single, par))
    return out


def run_backend(m, f, self_ty, in_val, tag, alias=False):
    I = engine.mk_interp(m, 30_000_000)
    st = State()
    I.entry_state = st
    I.fresh += 1
    sobj = ('P', 'self', I.fresh)
    st.mem[sobj] = I.top(self_ty, 'self')
    I.entry_state = None
    body = f['mir']
    t = body['locals'][2]
    d = I.types[t]
    vals = []
    in_obj = out_obj = None
    for fd in d['variants'][0]['f']:
        fdd = I.types[fd['t']]
        if fdd['k'] == 'ptr':
            I.fresh += 1
            obj = ('P', '%s.%s' % (tag, fd['name']), I.fresh)
            if fd['name'].startswith('in'):
                st.mem[obj] = in_val if in_val is not None else I.top(fdd['t'], 'x')
                in_obj = obj
            elif alias and in_obj is not None:
                obj = out_obj = in_obj            # in-place call: the output pointer is the input pointer
            else:
                st.mem[obj] = I.top(fdd['t'], 'o')
                out_obj = obj
            vals.append(Ptr(obj, (), None, None, None, None, fdd['mut']))
        else:
            vals.append(I.zst(fd['t']))
    before = st.mem[in_obj]
    status, r = engine.run(I, f['id'], [Ptr(sobj, (), None, None, None, None, False), Struct(t, vals)], st)
    return I, st, status, r, in_obj, out_obj, before


def soft_new(m, cipher_s):
    return [f['id'] for f in m.fns if f.get('impl_trait') == 'crypto_common::KeyInit' and f.get('name') == 'new'
            and f['crate'] in REPO_CRATES and m.ty(f['mir']['locals'][0])['s'] == cipher_s]


def soft_call(I, m, self_ty, cipher, f, in_val, tag):
    """call a backend method of a wrapper backend (a struct holding `&Cipher`) on the given cipher value"""
    wd = m.ty(self_ty)
    st = State()
    I.fresh += 1
    cobj = ('P', 'cipher', I.fresh)
    st.mem[cobj] = cipher
    I.fresh += 1
    wobj = ('P', 'backend', I.fresh)
    st.mem[wobj] = Struct(self_ty, [Ptr(cobj, (), None, None, None, None, False) if m.ty(fd['t']).get('size') != 0 else I.zst(fd['t'])
                                    for fd in wd['variants'][0]['f']])
    t = f['mir']['locals'][2]
    vals = []
    in_obj = out_obj = None
    I.entry_state = st
    for fd in I.types[t]['variants'][0]['f']:
        fdd = I.types[fd['t']]
        if fdd['k'] == 'ptr':
            I.fresh += 1
            obj = ('P', '%s.%s' % (tag, fd['name']), I.fresh)
            if fd['name'].startswith('in'):
                st.mem[obj] = in_val if in_val is not None else I.top(fdd['t'], 'x')
                in_obj = obj
            else:
                st.mem[obj] = I.top(fdd['t'], 'o')
                out_obj = obj
            vals.append(Ptr(obj, (), None, None, None, None, fdd['mut']))
        else:
            vals.append(I.zst(fd['t']))
    I.entry_state = None
    before = st.mem[in_obj]
    status, r = engine.run(I, f['id'], [Ptr(wobj, (), None, None, None, None, False), Struct(t, vals)], st)
    return status, r, before, st.mem.get(out_obj)


def soft_interp(m, summ, inv, fresh=True):
    import bitform
    if fresh:
        equiv.fresh_terms()
    else:
        engine._INTERPS.clear()
    I = engine.mk_interp(m, 60_000_000)
    I.bitcanon = True
    T.BITCANON = True
    I.summaries = dict(summ)
    bitform.PW_INVERSES.update(inv)
    return I


def wrapped_cipher(m, self_ty):
    wd = m.ty(self_ty)
    if wd['k'] != 'adt' or len(wd.get('variants', [])) != 1:
        return None
    refs = [fd for fd in wd['variants'][0]['f'] if m.ty(fd['t']).get('size') != 0]
    if len(refs) != 1 or m.ty(refs[0]['t'])['k'] != 'ref':
        return None
    return m.ty(m.ty(refs[0]['t'])['t'])['s']


def fixslice_lanes(m, cfgname, self_ty, sname, direction, single, par):
    """rule L for the bitsliced AES backends (engine L3b): the instance is the one `KeyInit::new` builds from a symbolic
    key (so that the round-key replication across the interleaved lanes is part of the terms), sub_bytes / inv_sub_bytes
    are position-wise opaque functions (lemma proved first, see c01.bitlevel_setup), and every output lane of
    *_par_blocks must equal, in bit-level canonical form, the single-block routine applied to that input lane."""
    import c01, bitform
    out = []
    base = '%s|%s|%s' % (cfgname, sname, direction)
    spec = c01.bitlevel_spec('aes::soft')
    summ, inv, lem, verdict = c01.bitlevel_setup(m, spec)
    if summ is None:
        if verdict is False:
            return [('vL', 'L-lane-agreement', base + '|lemma', '%s: %s' % (sname, lem))]
        # one entry per lane so that the instance count (floor) does not depend on whether the bit-level anchors exist
        nl = 4
        try:
            pt = m.ty(m.ty(par['mir']['locals'][2])['variants'][0]['f'][0]['t'])
            nl = max(1, m.ty(pt['t']).get('size', 64) // 16)
        except Exception:
            pass
        return [('undec', 'L-lane-agreement', base + '|lane%d' % i, '%s: bit-level mode not applicable (%s)' % (sname, lem)) for i in range(nl)]
    cipher_s = wrapped_cipher(m, self_ty)
    if cipher_s is None:
        return [('undec', 'L-lane-agreement', base, '%s: not a wrapper around a reference to the cipher' % sname)]
    news = soft_new(m, cipher_s)
    if not news:
        return [('fc', 'L-lane-agreement', base + '|new', 'no KeyInit::new for %s' % pretty(cipher_s))]
    try:
        I = soft_interp(m, summ, inv)
        st0 = State()
        fnew = m.fn(news[0])
        args = engine.default_args(I, st0, fnew)
        status, cipher = engine.run(I, fnew['id'], args, st0)
        if status != 'ok':
            return [('fc', 'L-lane-agreement', base + '|new|' + status, str(cipher)[:200])]
        status, r, pbefore, pout = soft_call(I, m, self_ty, cipher, par, None, 'p')
        if status != 'ok':
            return [('fc', 'L-lane-agreement', base + '|par|' + status, str(r)[:200])]
        lanes_in, lanes_out = lanes_of(pbefore), lanes_of(pout)
        if lanes_in is None or lanes_out is None or len(lanes_in) != len(lanes_out):
            return [('fc', 'L-lane-agreement', base + '|shape', 'cannot split ParBlocks into lanes')]
        inout_ty = m.ty(single['mir']['locals'][2])
        block_ty = [I.types[fd['t']]['t'] for fd in inout_ty['variants'][0]['f'] if I.types[fd['t']]['k'] == 'ptr'][0]
        for i, (li, lo) in enumerate(zip(lanes_in, lanes_out)):
            key = base + '|lane%d' % i
            status, r, _b, sout = soft_call(I, m, self_ty, cipher, single, li, 'l%d' % i)
            if status != 'ok':
                out.append(('fc', 'L-lane-agreement', key + '|' + status, str(r)[:200]))
                continue
            a = flatten(I, sout, block_ty)
            b = flatten(I, lo, block_ty)
            if a is None or b is None:
                out.append(('fc', 'L-lane-agreement', key + '|flatten', 'block not flattenable'))
                continue
            diff = [j for j, (x, y) in enumerate(zip(a, b)) if x.term is None or y.term is None or bitform.recanon(x.term) is not bitform.recanon(y.term)]
            if not diff:
                out.append(('okL', 'L-lane-agreement', key, dict(backend=sname, direction=direction, lane=i, lanes=len(lanes_in),
                                                                 engine='bit-level, instance from KeyInit::new on a symbolic key') if i == 0 else None))
            else:
                j = diff[0]
                out.append(('vL', 'L-lane-agreement', key,
                            '%s::%srypt_par_blocks: output lane %d byte %d is not the single-block result for input lane %d (bit-level canonical forms differ)' % (
                                sname, direction, i, j, i)))
    finally:
        T.BITCANON = False
        engine._INTERPS.clear()
    return out


def run(chk, facts_by_config):
    chk.trusted += ['cipher 0.5.0-pre.8 / inout 0.2.0-rc.4 (provided tail / in-place methods loop over single blocks)',
                    'the rewrite rules of analysis/terms.py']
    for cfgname, F in facts_by_config.items():
        chk.configs.append(cfgname)
        m = F.mono
        # ---------------- A
        nA = 0
        for c in F.crates():
            par_size = {}
            for im in c.impls:
                if im.get('trait') == 'crypto_common::ParBlocksSizeUser':
                    for it in im['items']:
                        if it['name'] == 'ParBlocksSize':
                            par_size[im['self_s']] = pretty(it.get('ty_s', ''))
            for im in c.impls:
                if im.get('trait') not in (ENC, DEC):
                    continue
                nA += 1
                names = [it['name'] for it in im['items']]
                ps = par_size.get(im['self_s'])
                key = '%s|%s|A|%s' % (cfgname, pretty(im['self_s']), im['trait'].rsplit('::', 1)[-1])
                extra = [n for n in names if not n.endswith('crypt_block') and not n.endswith('_par_blocks')]
                if extra:
                    chk.violation('A-override-discipline', key + '|' + ','.join(extra),
                                  'backend impl for %s (%s) overrides %s: the provided per-block loop is replaced by code that is not '
                                  'proven equivalent to it' % (pretty(im['self_s']), im['span'], extra))
                elif any(n.endswith('_par_blocks') for n in names) and ps in ('U1', 'typenum::U1'):
                    chk.violation('A-override-discipline', key + '|par-with-U1',
                                  'backend impl for %s overrides the parallel method although ParBlocksSize = U1' % pretty(im['self_s']))
                else:
                    chk.ok('A-override-discipline', key, dict(type=pretty(im['self_s']), overrides=names, par_blocks=ps) if nA % 25 == 1 else None)
        chk.floor('A-override-discipline', nA, 'A.' + cfgname)
        # ---------------- B2: get_out discipline (L1)
        nB2 = 0
        for f in m.fns:
            if f['crate'] not in REPO_CRATES:
                continue
            body = f['mir']
            outs = set()
            for b in body['bbs']:
                t = b['t']
                if t['k'] == 'call' and callee_name(t).endswith('::get_out') and callee_name(t).startswith('inout::') and len(t['d']) == 1:
                    outs.add(t['d'][0])
            if not outs:
                continue
            # propagate through moves / mutable re-borrows
            ch = True
            while ch:
                ch = False
                for b in body['bbs']:
                    for s in b['s']:
                        if s[0] == '=' and len(s[1]) == 1 and s[1][0] not in outs:
                            rv = s[2]
                            if rv[0] == 'use' and rv[1][0] in ('cp', 'mv') and len(rv[1][1]) == 1 and rv[1][1][0] in outs:
                                outs.add(s[1][0])
                                ch = True
                            elif rv[0] == 'ref' and rv[1] and rv[2][0] in outs and rv[2][1:] == ['*']:
                                outs.add(s[1][0])
                                ch = True
            for b in body['bbs']:
                for s in b['s']:
                    if s[0] == '=' and s[2][0] in ('ref', 'raw') and s[2][2][0] in outs and not s[2][1]:
                        nB2 += 1
                        chk.violation('B-output-not-read', '%s|%s|shared-reborrow-of-get_out' % (cfgname, pretty(f['full'])),
                                      '%s (%s:%s): the reference returned by InOut::get_out() is re-borrowed as shared (`&`): the output buffer '
                                      'is read as if it were input' % (pretty(f['full']), fn_loc(f), s[3] if len(s) > 3 else '?'))
                    if s[0] == '=' and s[2][0] == 'use' and s[2][1][0] in ('cp', 'mv') and len(s[2][1][1]) > 1 and s[2][1][1][0] in outs \
                            and s[2][1][1][1] == '*':
                        nB2 += 1
                        chk.violation('B-output-not-read', '%s|%s|read-through-get_out' % (cfgname, pretty(f['full'])),
                                      '%s (%s): a value is read through the reference returned by InOut::get_out()' % (pretty(f['full']), fn_loc(f)))
            chk.ok('B-output-not-read', '%s|%s' % (cfgname, pretty(f['full'])))
        # ---------------- L, B1, B3 (terms): one job per backend impl, run in a process pool (see run_terms)
        pass
    run_terms(chk, facts_by_config)


def backend_job(job):
    """all term checks for one backend impl; returns a list of (kind, rule, key, payload)"""
    cfgname, fdir, self_ty, trait = job
    F = Facts(cfgname, fdir)
    m = F.mono
    pair = [p for p in backend_pairs(m) if p[0] == self_ty and p[1] == trait][0]
    _st, _tr, single, par = pair
    out = []
    sname = pretty(m.ty(self_ty)['s'])
    direction = 'enc' if trait == ENC else 'dec'
    base = '%s|%s|%s' % (cfgname, sname, direction)
    with equiv.TermMode():
        engine._INTERPS.clear()
        I, st, status, r, in_obj, out_obj, before = run_backend(m, single, self_ty, None, 'a')
        if status != 'ok':
            return [('fc', 'analysis', base + '|single|' + status, '%s: %s' % (sname, str(r)[:200]))]
        inout_ty = m.ty(single['mir']['locals'][2])
        block_ty = [I.types[fd['t']]['t'] for fd in inout_ty['variants'][0]['f'] if I.types[fd['t']]['k'] == 'ptr'][0]
        if st.mem.get(in_obj) is before:
            out.append(('ok', 'B-input-untouched', base + '|single', None))
        else:
            out.append(('v', 'B-input-untouched', base + '|single', '%s::%srypt_block stores into the separate input buffer' % (sname, direction)))
        ob = flatten(I, st.mem[out_obj], block_ty) or []
        stale = [i for i, b in enumerate(ob) if b.term is not None and mentions(b.term, 'o')]
        if stale:
            out.append(('v', 'B-output-not-read', base + '|single|stale-output',
                        '%s::%srypt_block: output byte %d depends on the previous content of the output buffer' % (sname, direction, stale[0])))
        else:
            out.append(('ok', 'B-output-not-read', base + '|single|terms', None))
        # B4: the in-place call (output pointer = input pointer) computes the same terms as the call with separate buffers
        if not sname.startswith(PAR_UNDECIDED):
            Ia, sta, status_a, ra, ain, aout, _ab = run_backend(m, single, self_ty, before, 'a', alias=True)
            if status_a != 'ok':
                out.append(('fc', 'B-inplace-equals-b2b', base + '|single|' + status_a, '%s: %s' % (sname, str(ra)[:200])))
            else:
                oa = flatten(Ia, sta.mem[aout], block_ty) or []
                diff = [i for i, (x, y) in enumerate(zip(ob, oa)) if x.term is None or y.term is None or x.term is not y.term]
                if any(x.term is None for x in ob) or any(y.term is None for y in oa):
                    # the routine branches on an unknown instance field (Twofish.start, Cast5.small_key, ...): no term to compare
                    out.append(('undec', 'B-inplace-equals-b2b', base + '|single', '%s: in-place = separate-buffer comparison needs a term for every output byte' % sname))
                elif len(oa) != len(ob) or diff:
                    out.append(('v', 'B-inplace-equals-b2b', base + '|single',
                                '%s::%srypt_block: with separate input and output buffers output byte %s differs from the in-place call: %s' % (
                                    sname, direction, diff[0] if diff else '?', T.first_diff(ob[diff[0]].term, oa[diff[0]].term) if diff else 'shape')))
                else:
                    out.append(('ok', 'B-inplace-equals-b2b', base + '|single', None))
        if par is None:
            return out
        Ip, stp, status, r, pin, pout, pbefore = run_backend(m, par, self_ty, None, 'p')
        if status != 'ok':
            out.append(('fc', 'analysis', base + '|par|' + status, '%s: %s' % (sname, str(r)[:200])))
            return out
        if stp.mem.get(pin) is pbefore:
            out.append(('ok', 'B-input-untouched', base + '|par', None))
        else:
            out.append(('v', 'B-input-untouched', base + '|par', '%s::%srypt_par_blocks stores into the separate input buffer' % (sname, direction)))
        lanes_in = lanes_of(pbefore)
        lanes_out = lanes_of(stp.mem[pout])
        if lanes_in is None or lanes_out is None or len(lanes_in) != len(lanes_out):
            out.append(('fc', 'L-lane-agreement', base + '|shape', 'cannot split ParBlocks into lanes'))
            return out
        undec = sname.startswith(PAR_UNDECIDED)
        if undec:
            out += fixslice_lanes(m, cfgname, self_ty, sname, direction, single, par)
            return out
        for i, (li, lo) in enumerate(zip(lanes_in, lanes_out)):
            key = base + '|lane%d' % i
            Is, sts, status, r, sin, sout, _b = run_backend(m, single, self_ty, li, 'l%d' % i)
            if status != 'ok':
                out.append(('fc', 'L-lane-agreement', key + '|' + status, str(r)[:200]))
                continue
            a = flatten(Is, sts.mem[sout], block_ty)
            b = flatten(Ip, lo, block_ty)
            if a is None or b is None:
                out.append(('fc', 'L-lane-agreement', key + '|flatten', 'block not flattenable'))
                continue
            diff = [(j, x.term, y.term) for j, (x, y) in enumerate(zip(a, b)) if x.term is None or x.term is not y.term]
            if not diff:
                out.append(('okL', 'L-lane-agreement', key, dict(backend=sname, direction=direction, lane=i, lanes=len(lanes_in)) if i == 0 else None))
            elif undec:
                out.append(('undec', 'L-lane-agreement', key, '%s: lanes are interleaved in one bitsliced state' % sname))
            else:
                j, x, y = diff[0]
                out.append(('vL', 'L-lane-agreement', key,
                            '%s::%srypt_par_blocks: output lane %d byte %d is not the single-block result for input lane %d: %s' % (
                                sname, direction, i, j, i, T.first_diff(y, x))))
    return out


def run_terms(chk, facts_by_config):
    import multiprocessing as mp
    jobs = []
    for cfgname, F in facts_by_config.items():
        for (self_ty, trait, single, par) in backend_pairs(F.mono):
            jobs.append((cfgname, F.dir, self_ty, trait))
    with mp.Pool(min(16, os.cpu_count() or 4)) as pool:
        results = pool.map(backend_job, jobs, chunksize=1)
    nL = {}
    for job, res in zip(jobs, results):
        for (kind, rule, key, payload) in res:
            if kind in ('ok', 'okL'):
                chk.ok(rule, key, payload)
            elif kind == 'fc':
                chk.fail_closed(rule, key, payload)
            elif kind == 'undec':
                if payload not in chk.undecided:
                    chk.undecided.append(payload)
            else:
                chk.violation(rule, key, payload)
            if kind in ('okL', 'vL', 'undec'):
                nL[job[0]] = nL.get(job[0], 0) + 1
    for cfgname in facts_by_config:
        chk.floor('L-lane-agreement', nL.get(cfgname, 0), 'L.' + cfgname)


def lanes_of(v):
    """elements of a ParBlocks value (Array<Block, N>)"""
    for _ in range(4):
        if isinstance(v, Struct):
            nz = [x for x in v.f if not (isinstance(x, Struct) and not x.f)]
            if len(nz) == 1:
                v = nz[0]
                continue
        break
    if isinstance(v, Arr):
        return list(v.e)
    return None
