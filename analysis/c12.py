"""C12 -- Enc-only / Dec-only / converted / cloned instances agree.

Decided structurally (clause level):
 U  run-time backend union: every read or construction of a union arm is dominated by
    a test of the CPU-feature token, all sites in the crate agree on which arm belongs
    to which outcome, and a constructed value stores the very token that was tested.
 K  Clone is field-wise: the value returned by every `Clone::clone` of a cipher (or
    inner key-holder) type has each field equal to the clone/copy of the same field of
    `self` (forward provenance dataflow over the clone body; derived or hand-written); a body that is
    not in that shape is decided semantically instead (clone_by_terms).
 K2 an overriding `Clone::clone_from` leaves *self leaf-for-leaf equal to the source (terms).
 D' converted = freshly keyed, by terms: see c12_terms.py.
 E  the encrypt-only / decrypt-only / combined types of one family encrypt (decrypt) a symbolic block to identical terms
    on the instances `new` builds from one symbolic key (c12_terms.run_rule_E).  (The older call-set agreement rule D is kept below for
    reference but no longer used.)
"""
import re
from facts import *

CPUFEATURES_MACRO = 'Macro(Bang, "cpufeatures::new")'


def place_types(m, body, place):
    """yield (index of projection, type id of the value *before* that projection)"""
    t = body['locals'][place[0]]
    for i, e in enumerate(place[1:], 1):
        yield i, t
        d = m.ty(t)
        if e == '*':
            t = d.get('t', t)
        elif e[0] == 'f':
            t = e[2]
        elif e[0] in ('i', 'c'):
            t = d.get('e', t)
        elif e[0] == 'o':
            t = e[1]
        # downcast / subslice keep the type


def all_places(body):
    """(bb, kind, place) for every place mentioned"""
    for bi, b in enumerate(body['bbs']):
        for s in b['s']:
            if s[0] == '=':
                yield bi, 'w', s[1]
                for p in places_read_by_rvalue(s[2]):
                    yield bi, 'r', p
        t = b['t']
        for o in term_operands(t):
            if o[0] in ('cp', 'mv'):
                yield bi, 'r', o[1]
        if t['k'] == 'call':
            yield bi, 'w', t['d']
        if t['k'] == 'drop':
            yield bi, 'r', t['p']


class TokenInfo:
    def __init__(self, m, f):
        self.m = m
        self.f = f
        body = f['mir']
        self.body = body
        self.bool_src = {}   # local -> token source key
        self.tok_src = {}    # local holding an InitToken -> source key
        tuples = {}
        for bi, b in enumerate(body['bbs']):
            t = b['t']
            if t['k'] == 'call' and 'f' in t and len(t['d']) == 1:
                c = t['f']
                ci = c.get('inst')
                if ci is None:
                    continue
                cf = m.fn(ci)
                if CPUFEATURES_MACRO not in cf.get('expn', []):
                    continue
                if c['name'] == 'get' and t['a'] and t['a'][0][0] in ('cp', 'mv'):
                    src = self.ref_target(t['a'][0][1][0])
                    self.bool_src[t['d'][0]] = src
                elif c['name'] == 'init_get':
                    tuples[t['d'][0]] = 'init_get@bb%d' % bi
                elif c['name'] == 'init':
                    self.tok_src[t['d'][0]] = 'init@bb%d' % bi
        ch = True
        while ch:
            ch = False
            for b in body['bbs']:
                for s in b['s']:
                    if s[0] != '=' or len(s[1]) != 1 or s[2][0] != 'use' or s[2][1][0] not in ('cp', 'mv'):
                        continue
                    dst = s[1][0]
                    sp = s[2][1][1]
                    if len(sp) == 1:
                        for d in (self.bool_src, self.tok_src):
                            if sp[0] in d and d.get(dst) != d[sp[0]]:
                                d[dst] = d[sp[0]]
                                ch = True
                    elif len(sp) == 2 and sp[1] != '*' and sp[1][0] == 'f' and sp[0] in tuples:
                        d = self.bool_src if sp[1][1] == 1 else self.tok_src
                        if d.get(dst) != tuples[sp[0]]:
                            d[dst] = tuples[sp[0]]
                            ch = True
                    else:
                        # copy of a token field  (*_1).token
                        td = m.ty(body['locals'][dst])
                        if td['k'] == 'adt' and td['path'].endswith('::InitToken'):
                            k = 'field:' + place_str(sp)
                            if self.tok_src.get(dst) != k:
                                self.tok_src[dst] = k
                                ch = True

    def ref_target(self, local):
        for b in self.body['bbs']:
            for s in b['s']:
                if s[0] == '=' and s[1] == [local] and s[2][0] == 'ref':
                    return 'field:' + place_str(s[2][2])
        return 'local:_%d' % local


def rule_U(chk, cfgname, m, reach):
    arm_polarity = {}   # (union type, arm) -> {polarity: [sites]}
    n_sites = 0
    for fid in sorted(reach):
        f = m.fn(fid)
        if f['crate'] not in REPO_CRATES:
            continue
        body = f['mir']
        sites = []   # (bb, union type id, arm index, what)
        for bi, kind, p in all_places(body):
            for i, t in place_types(m, body, p):
                d = m.ty(t)
                e = p[i]
                if d['k'] == 'adt' and d['adt_kind'] == 'union' and e != '*' and e[0] == 'f':
                    sites.append((bi, t, e[1], 'access ' + place_str(p)))
        for bi, b in enumerate(body['bbs']):
            for s in b['s']:
                if s[0] == '=' and s[2][0] == 'agg' and s[2][1][0] == 'adt' and s[2][1][3] is not None:
                    sites.append((bi, s[2][1][1], s[2][1][3], 'construct'))
        if not sites:
            continue
        ti = TokenInfo(m, f)
        idom = dominators(body)
        fname = pretty(f['full'])
        tested_src = set()
        for (bi, ut, arm, what) in sites:
            n_sites += 1
            uname = pretty(m.ty(ut)['s'])
            pol = set()
            for si, sb in enumerate(body['bbs']):
                t = sb['t']
                if t['k'] != 'sw' or t['op'][0] not in ('cp', 'mv') or len(t['op'][1]) != 1:
                    continue
                l = t['op'][1][0]
                if l not in ti.bool_src:
                    continue
                zero = [b for (v, b) in t['v'] if v == 0]
                other = t['o']
                if other != si and dominates(idom, other, bi) and not (zero and zero[0] == other):
                    pol.add(True)
                    tested_src.add(ti.bool_src[l])
                if zero and dominates(idom, zero[0], bi) and zero[0] != other:
                    pol.add(False)
                    tested_src.add(ti.bool_src[l])
            key = '%s|%s|U|%s|arm%d' % (cfgname, fname, what.split(' ')[0], arm)
            if len(pol) != 1:
                chk.violation('U-union-token', key,
                              '%s (%s): union %s arm %d is %s without being guarded by exactly one outcome of the CPU-feature token test'
                              % (fname, fn_loc(f), uname, arm, what))
                continue
            arm_polarity.setdefault((uname.rsplit('::', 1)[0], arm), {}).setdefault(pol.pop(), []).append((fname, key))
        # stored token must be the tested one
        for bi, b in enumerate(body['bbs']):
            for s in b['s']:
                if s[0] == '=' and s[2][0] == 'agg' and s[2][1][0] == 'adt' and s[2][1][3] is None:
                    for o in s[2][2]:
                        if o[0] in ('cp', 'mv') and len(o[1]) == 1:
                            td = m.ty(body['locals'][o[1][0]])
                            if td['k'] == 'adt' and td['path'].endswith('::InitToken'):
                                src = ti.tok_src.get(o[1][0])
                                key = '%s|%s|U|stored-token' % (cfgname, fname)
                                if src is not None and src in tested_src:
                                    chk.ok('U-union-token', key, dict(fn=fname, token=src))
                                else:
                                    chk.violation('U-union-token', key,
                                                  '%s (%s): the token stored in the new value (%s) is not the token whose test selected '
                                                  'the union arm (%s)' % (fname, fn_loc(f), src, sorted(tested_src)))
    # agreement between siblings
    for (mod, arm), pols in sorted(arm_polarity.items()):
        if len(pols) == 1:
            for (fname, key) in list(pols.values())[0]:
                chk.ok('U-union-token', key, dict(fn=fname, arm=arm, token_outcome=list(pols.keys())[0]))
        else:
            minority = min(pols.values(), key=len)
            for (fname, key) in minority:
                chk.violation('U-union-token', key,
                              '%s uses union arm %d under the opposite token outcome than %d sibling sites do'
                              % (fname, arm, sum(len(v) for v in pols.values()) - len(minority)))
            for v in pols.values():
                if v is not minority:
                    for (fname, key) in v:
                        chk.ok('U-union-token', key)
    # the two arms of one union must be selected by opposite outcomes
    by_mod = {}
    for (mod, arm), pols in arm_polarity.items():
        if len(pols) == 1:
            by_mod.setdefault(mod, {})[arm] = list(pols.keys())[0]
    for mod, arms in by_mod.items():
        if len(arms) >= 2 and len(set(arms.values())) != len(arms):
            chk.violation('U-union-token', '%s|%s|U|arms-same-outcome' % (cfgname, mod),
                          'union arms of %s are all selected by the same token outcome' % mod)
    return n_sites


# ------------------------------------------------------------------ K
class Prov:
    """provenance lattice for clone bodies: ('src', path) | ('ref', path) | ('struct', {i: prov}) | ('other', why)"""


def rule_K_body(m, f):
    """returns None if the returned value is field-wise the clone of self, else a reason string"""
    body = f['mir']
    n = len(body['bbs'])
    g = cfg(body)
    OTHER = ('other',)

    def join(a, b):
        if a == b:
            return a
        if a is None:
            return b
        if b is None:
            return a
        if a[0] == 'struct' and b[0] == 'struct' and a[1] == b[1] and set(a[2]) == set(b[2]):
            return ('struct', a[1], {k: join(a[2][k], b[2][k]) for k in a[2]})
        return OTHER

    def freeze(v):
        if v is None:
            return None
        if v[0] == 'struct':
            return ('struct', v[1], tuple(sorted((k, freeze(x)) for k, x in v[2].items())))
        return v

    def norm(v, ty):
        """a struct whose every field i is src(path+(i,)) is src(path); a union arm built from the same arm likewise"""
        if v is None or v[0] != 'struct':
            return v
        d = m.ty(v[1])
        fs = {k: norm(x, None) for k, x in v[2].items()}
        paths = set()
        zst = set()
        if d['k'] == 'adt' and d['adt_kind'] != 'union':
            for k, fd in enumerate(d['variants'][0]['f']):
                if m.ty(fd['t']).get('size') == 0:
                    zst.add(k)      # a zero-sized field (PhantomData) carries no state
        for k, x in fs.items():
            if k in zst:
                continue
            if x is None or x[0] != 'src' or not x[1] or x[1][-1] != k:
                return ('struct', v[1], fs)
            paths.add(x[1][:-1])
        if len(paths) == 1:
            nf = len(d['variants'][0]['f']) if d['k'] == 'adt' else len(fs)
            if d['k'] == 'adt' and d['adt_kind'] == 'union' or len(fs) == nf:
                return ('src', paths.pop())
        return ('struct', v[1], fs)

    def place_val(st, p, self_local=1):
        base = st.get(p[0])
        if p[0] == self_local and len(p) >= 2 and p[1] == '*':
            path = []
            for e in p[2:]:
                if e != '*' and e[0] == 'f':
                    path.append(e[1])
                else:
                    return OTHER
            return ('src', tuple(path))
        if base is None:
            return OTHER
        v = base
        for e in p[1:]:
            if e == '*':
                if v[0] == 'ref':
                    v = ('src', v[1])
                else:
                    return OTHER
            elif e[0] == 'f':
                if v[0] == 'src':
                    v = ('src', v[1] + (e[1],))
                elif v[0] == 'struct' and e[1] in v[2]:
                    v = v[2][e[1]] or OTHER
                else:
                    return OTHER
            else:
                return OTHER
        return v

    def op_val(st, o):
        if o[0] in ('cp', 'mv'):
            return place_val(st, o[1])
        return OTHER

    IN = [None] * n
    IN[0] = {}
    work = [0]
    rets = []
    it = 0
    while work and it < 2000:
        it += 1
        bi = work.pop()
        st = dict(IN[bi])
        b = body['bbs'][bi]
        for s in b['s']:
            if s[0] != '=':
                continue
            p, rv = s[1], s[2]
            v = OTHER
            if rv[0] == 'use':
                v = op_val(st, rv[1])
            elif rv[0] == 'ref':
                pv = place_val(st, rv[2])
                v = ('ref', pv[1]) if pv[0] == 'src' else (pv if pv[0] == 'ref' and rv[2][-1] == '*' else OTHER)
                if rv[2][-1] == '*' and len(rv[2]) == 2:
                    base = st.get(rv[2][0])
                    if base is not None and base[0] == 'ref':
                        v = base
                    elif rv[2][0] == 1:
                        v = ('ref', ())
            elif rv[0] == 'agg' and rv[1][0] == 'adt':
                d = m.ty(rv[1][1])
                if rv[1][3] is not None:
                    v = norm(('struct', rv[1][1], {rv[1][3]: op_val(st, rv[2][0])}), None)
                elif d['adt_kind'] == 'struct' or (d['adt_kind'] == 'enum' and len(d['variants']) == 1):
                    v = norm(('struct', rv[1][1], {i: op_val(st, o) for i, o in enumerate(rv[2])}), None)
            elif rv[0] == 'cast' and rv[2][0] in ('cp', 'mv'):
                v = op_val(st, rv[2])
            if len(p) == 1:
                st[p[0]] = v
            elif len(p) == 2 and p[1] != '*' and p[1][0] == 'f' and st.get(p[0]) is not None and st[p[0]][0] == 'struct':
                nv = dict(st[p[0]][2])
                nv[p[1][1]] = v
                st[p[0]] = norm(('struct', st[p[0]][1], nv), None)
            else:
                st[p[0]] = OTHER
        t = b['t']
        if t['k'] == 'call' and len(t['d']) == 1:
            name = callee_name(t)
            c = t.get('f', {})
            v = OTHER
            a0 = op_val(st, t['a'][0]) if t['a'] else OTHER
            if c.get('trait') == 'core::clone::Clone' and c.get('name') == 'clone' and a0[0] == 'ref':
                v = ('src', a0[1])
            elif name in ('<core::mem::manually_drop::ManuallyDrop<T> as core::ops::deref::Deref>::deref',) and a0[0] == 'ref':
                v = a0
            elif name == 'core::mem::manually_drop::ManuallyDrop::<T>::new' and a0[0] == 'src':
                v = a0
            st[t['d'][0]] = v
        if t['k'] == 'ret':
            rets.append(st.get(0))
        for w in succs(t):
            if IN[w] is None:
                IN[w] = dict(st)
                work.append(w)
            else:
                new = {}
                chg = False
                for k in set(IN[w]) | set(st):
                    j = join(IN[w].get(k), st.get(k)) if (k in IN[w] and k in st) else OTHER
                    new[k] = j
                    if freeze(j) != freeze(IN[w].get(k)):
                        chg = True
                if chg:
                    IN[w] = new
                    work.append(w)
    if not rets:
        return 'no return'
    for r in rets:
        r = norm(r, None) if r is not None else None
        if r is None or r[0] != 'src' or r[1] != ():
            if r is not None and r[0] == 'struct':
                d = m.ty(r[1])
                bad = []
                for k, x in sorted(r[2].items()):
                    if d['k'] == 'adt' and m.ty(d['variants'][0]['f'][k]['t']).get('size') == 0:
                        continue
                    if not (x is not None and x[0] == 'src' and x[1] == (k,)):
                        nm = d['variants'][0]['f'][k]['name'] if d['k'] == 'adt' else str(k)
                        bad.append('field `%s` <- %s' % (nm, 'self.' + '.'.join(map(str, x[1])) if x and x[0] == 'src' else 'a value not cloned from self'))
                return '; '.join(bad) or 'not all fields rebuilt'
            return 'the returned value is not built field-by-field from `self`'
    return None


def clone_by_terms(m, f):
    """None if clone(self) is leaf-for-leaf the value of self (terms), else a reason"""
    import equiv, engine
    import terms as T
    from interp import State, _leaf_terms
    try:
        with equiv.TermMode():
            engine._INTERPS.clear()
            I = engine.mk_interp(m, 20_000_000)
            st = State()
            args = engine.default_args(I, st, f)
            want = []
            _leaf_terms(st.mem[args[0].obj], want)
            status, r = engine.run(I, f['id'], args, st)
            if status != 'ok':
                return 'could not be interpreted (%s %s)' % (status, str(r)[:120])
            got = []
            _leaf_terms(r, got)
        if len(got) != len(want):
            return 'the clone has %d leaves, self has %d' % (len(got), len(want))
        for i, (g, w) in enumerate(zip(got, want)):
            if g is None or g is not w:
                return 'leaf %d of the clone is %s, self has %s' % (i, T.show(g, 0, 3) if g is not None else 'not a term', T.show(w, 0, 3))
        return None
    except Exception as e:
        return 'analysis error %r' % (e,)
    finally:
        import engine as _e
        _e._INTERPS.clear()


def rule_K(chk, cfgname, m, reach):
    n = 0
    for fid in sorted(reach):
        f = m.fn(fid)
        if f['crate'] not in REPO_CRATES or f.get('impl_trait') != 'core::clone::Clone' or f.get('name') != 'clone':
            continue
        n += 1
        fname = pretty(f['full'])
        why = rule_K_body(m, f)
        key = '%s|%s|K-clone-fieldwise' % (cfgname, fname)
        how = 'provenance'
        if why is not None:
            # not in the field-wise shape (e.g. an element-by-element copy loop): decide it semantically instead --
            # interpreted on a symbolic `self`, every leaf of the result must carry the term of the same leaf of self
            sem = clone_by_terms(m, f)
            if sem is None:
                why, how = None, 'terms'
            else:
                why = '%s; and by value numbering: %s' % (why, sem)
        if why is None:
            chk.ok('K-clone-fieldwise', key, dict(fn=fname, derived=any('Derive' in x for x in f.get('expn', [])), decided_by=how))
        else:
            chk.violation('K-clone-fieldwise', key, '%s (%s): clone is not field-wise: %s' % (fname, fn_loc(f), why))
    return n


def rule_K2(chk, cfgname, m):
    """an overriding `Clone::clone_from` in /repo must leave *self field-wise equal to the source: interpreted with
    terms on a symbolic destination and a symbolic source, every leaf of the destination must afterwards carry the
    term of the same leaf of the source.  (The provided default is `*self = source.clone()`, covered by K.)"""
    import equiv, engine
    import terms as T
    from interp import State, Ptr, _leaf_terms
    n = 0
    for name, info, inst in m.roots_of(op='clone_from'):
        root = m.fn(inst)
        over = [m.fn(i) for i in m.reachable(inst)
                if m.fn(i)['crate'] in REPO_CRATES and m.fn(i).get('impl_trait') == 'core::clone::Clone' and m.fn(i).get('name') == 'clone_from']
        if not over:
            continue
        n += 1
        tyname = pretty(info['ty'])
        key = '%s|%s|K2-clone-from' % (cfgname, tyname)
        with equiv.TermMode():
            engine._INTERPS.clear()
            I = engine.mk_interp(m, 20_000_000)
            st = State()
            I.entry_state = st
            ty = I.types[root['mir']['locals'][1]]['t']
            objs = []
            for nm in ('dst', 'src'):
                I.fresh += 1
                o = ('P', nm, I.fresh)
                st.mem[o] = I.top(ty, nm)
                objs.append(o)
            I.entry_state = None
            want = []
            _leaf_terms(st.mem[objs[1]], want)
            status, r = engine.run(I, inst, [Ptr(objs[0], (), None, None, None, None, True), Ptr(objs[1], (), None, None, None, None, False)], st)
            if status != 'ok':
                chk.fail_closed('K2-clone-from', key + '|run', '%s::clone_from: %s %s' % (tyname, status, str(r)[:200]))
                continue
            got = []
            _leaf_terms(st.mem[objs[0]], got)
        engine._INTERPS.clear()
        bad = [i for i, (g, w) in enumerate(zip(got, want)) if g is None or g is not w]
        if len(got) != len(want) or bad:
            chk.violation('K2-clone-from', key, '%s::clone_from (%s) does not leave *self equal to the source: leaf %s of the destination is %s, the source has %s' % (
                tyname, fn_loc(over[0]), bad[0] if bad else '?', T.show(got[bad[0]], 0, 3) if bad else len(got), T.show(want[bad[0]], 0, 3) if bad else len(want)))
        else:
            chk.ok('K2-clone-from', key, dict(type=tyname, fn='clone_from', leaves=len(want)))
    return n


# ------------------------------------------------------------------ D
def repo_free_fns(m, inst):
    out = set()
    for i in m.reachable(inst):
        f = m.fn(i)
        if f['crate'] in REPO_CRATES and f.get('def_kind') == 'Fn' and 'impl_self' not in f:
            out.add(re.sub(r'::<.*$', '', pretty(f['path'])))
    return out


def rule_D(chk, cfgname, m):
    n = 0
    by_type_new = {}
    for name, info, inst in m.roots_of(op='new'):
        by_type_new[info['pub_path']] = inst
    for op in ('from', 'from_ref'):
        for name, info, inst in m.roots_of(op=op):
            dst, src = info['pub_path'], info['src']
            if dst not in by_type_new or src not in by_type_new:
                chk.fail_closed('D-same-derivation', '%s|%s<-%s' % (cfgname, dst, src), 'no `new` root for conversion endpoints')
                continue
            n += 1
            a = repo_free_fns(m, by_type_new[dst])
            b = repo_free_fns(m, by_type_new[src]) | repo_free_fns(m, inst)
            # cpufeatures-generated helpers and backend selection are not key derivation
            drop = lambda s: {x for x in s if 'aes_intrinsics' not in x}
            a, b = drop(a), drop(b)
            key = '%s|%s<-%s%s|D-same-derivation' % (cfgname, dst, '&' if op == 'from_ref' else '', src)
            if a == b:
                chk.ok('D-same-derivation', key, dict(conversion='%s::from(%s%s)' % (dst, '&' if op == 'from_ref' else '', src),
                                                     derivation=sorted(a)))
            else:
                chk.violation('D-same-derivation', key,
                              '%s::from(%s%s) derives its keys through a different set of routines than %s::new: only in new: %s; '
                              'only in Enc::new + conversion: %s' % (dst, '&' if op == 'from_ref' else '', src, dst,
                                                                     sorted(a - b), sorted(b - a)))
    return n


def _dprime_job(job):
    """run rule D' for one configuration in a worker process; returns the recorded results"""
    cfgname, fdir = job
    from framework import Check
    import c12_terms
    F = Facts(cfgname, fdir)
    sub = Check('C12', 'quick', 'other', 'worker')
    n = c12_terms.run_rule(sub, cfgname, F.mono)
    ne = c12_terms.run_rule_E(sub, cfgname, F.mono)
    return cfgname, (n, ne), sub.obligations, sub.discharged, sub.by_rule, sub.violations, sub.samples


def run(chk, facts_by_config):
    import multiprocessing as mp
    chk.trusted += ['Clone impls of core integer/array types and hybrid_array::Array', 'cpufeatures token semantics',
                    'the rewrite rules of analysis/terms.py; key-expansion intrinsics are pure functions']
    with mp.Pool(min(8, len(facts_by_config))) as pool:
        dasync = pool.map_async(_dprime_job, [(c, F.dir) for c, F in facts_by_config.items()], chunksize=1)
        for cfgname, F in facts_by_config.items():
            chk.configs.append(cfgname)
            m = F.mono
            reach = set()
            for r in m.roots.values():
                reach |= m.reachable(r)
            nu = rule_U(chk, cfgname, m, reach)
            chk.floor('U-union-token', nu, 'U.' + cfgname)
            nk = rule_K(chk, cfgname, m, reach)
            chk.floor('K-clone-fieldwise', nk, 'K.' + cfgname)
            nk2 = rule_K2(chk, cfgname, m)
            chk.extra.setdefault('clone_from_overrides', {})[cfgname] = nk2
        for (cfgname, n, ob, di, by_rule, viols, samples) in dasync.get():
            chk.obligations += ob
            chk.discharged += di
            for k, v in by_rule.items():
                r = chk.by_rule.setdefault(k, [0, 0])
                r[0] += v[0]
                r[1] += v[1]
            chk.violations += viols
            chk.samples += samples[:2]
            chk.floor("D'-same-keys", n[0], 'Dp.' + cfgname)
            chk.floor('E-same-function', n[1], 'E.' + cfgname)
