use crate::json::{arr, J};
use crate::Mode;
use rustc_abi::{FieldsShape, Size, Variants};
use rustc_data_structures::fx::{FxHashMap, FxHashSet};
use rustc_hir::def::DefKind;
use rustc_hir::def_id::{DefId, LOCAL_CRATE};
use rustc_middle::mir::interpret::{AllocId, GlobalAlloc, Scalar};
use rustc_middle::mir::{
    self, AggregateKind, BasicBlock, Body, BorrowKind, CastKind, Const, ConstValue,
    NonDivergingIntrinsic, Operand, Place, ProjectionElem, Rvalue, StatementKind, TerminatorKind,
};
use rustc_middle::ty::print::PrintTraitRefExt;
use rustc_middle::ty::{self, EarlyBinder, GenericArgsRef, Instance, InstanceKind, Ty, TyCtxt, TypeVisitableExt, TypingEnv};
use rustc_span::{Span, DUMMY_SP};
use std::collections::VecDeque;

pub struct Ex<'tcx> {
    tcx: TyCtxt<'tcx>,
    types: Vec<J>,
    type_ids: FxHashMap<Ty<'tcx>, usize>,
    allocs: Vec<(String, J)>,
    alloc_ids: FxHashMap<AllocId, String>,
    statics: Vec<J>,
    static_seen: FxHashSet<DefId>,
    // mono worklist
    inst_ids: FxHashMap<Instance<'tcx>, usize>,
    inst_list: Vec<Instance<'tcx>>,
    queue: VecDeque<Instance<'tcx>>,
    mono: bool,
}

fn crate_name(tcx: TyCtxt<'_>, did: DefId) -> String {
    tcx.crate_name(did.krate).to_string()
}

fn span_str(tcx: TyCtxt<'_>, sp: Span) -> String {
    if sp.is_dummy() {
        return "?".into();
    }
    let sm = tcx.sess.source_map();
    let lo = sm.lookup_char_pos(sp.lo());
    let name = format!("{}", lo.file.name.prefer_local_unconditionally());
    format!("{}:{}", name, lo.line)
}

fn expn_chain(sp: Span) -> Vec<String> {
    // names of the macros whose expansion produced this span (innermost first)
    let mut v = Vec::new();
    let mut s = sp;
    let mut n = 0;
    while s.from_expansion() && n < 8 {
        let d = s.ctxt().outer_expn_data();
        v.push(format!("{:?}", d.kind));
        s = d.call_site;
        n += 1;
    }
    v
}

impl<'tcx> Ex<'tcx> {
    fn new(tcx: TyCtxt<'tcx>, mono: bool) -> Self {
        Ex {
            tcx,
            types: Vec::new(),
            type_ids: FxHashMap::default(),
            allocs: Vec::new(),
            alloc_ids: FxHashMap::default(),
            statics: Vec::new(),
            static_seen: FxHashSet::default(),
            inst_ids: FxHashMap::default(),
            inst_list: Vec::new(),
            queue: VecDeque::new(),
            mono,
        }
    }

    // ---------------------------------------------------------------- types
    fn ty(&mut self, t: Ty<'tcx>, env: TypingEnv<'tcx>) -> J {
        J::UInt(self.ty_id(t, env) as u128)
    }

    fn ty_id(&mut self, t: Ty<'tcx>, env: TypingEnv<'tcx>) -> usize {
        if let Some(&i) = self.type_ids.get(&t) {
            return i;
        }
        let id = self.types.len();
        self.types.push(J::Null);
        self.type_ids.insert(t, id);
        let d = self.ty_desc(t, env);
        self.types[id] = d;
        id
    }

    fn layout_info(&mut self, t: Ty<'tcx>, env: TypingEnv<'tcx>, d: &mut J) {
        if t.has_non_region_param() || t.has_aliases() {
            return;
        }
        let Ok(l) = self.tcx.layout_of(env.as_query_input(t)) else { return };
        if !l.is_sized() {
            return;
        }
        d.set("size", J::UInt(l.size.bytes() as u128));
        d.set("align", J::UInt(l.align.abi.bytes() as u128));
        if let Variants::Multiple { tag, tag_encoding, tag_field, variants, .. } = &l.variants {
            let mut e = J::obj();
            let tag_off = match &l.fields {
                FieldsShape::Arbitrary { offsets, .. } => offsets[*tag_field].bytes(),
                _ => 0,
            };
            e.set("tag_off", J::UInt(tag_off as u128));
            e.set("tag_size", J::UInt(tag.size(&self.tcx.data_layout).bytes() as u128));
            match tag_encoding {
                rustc_abi::TagEncoding::Direct => {
                    e.set("enc", J::s("direct"));
                }
                rustc_abi::TagEncoding::Niche { untagged_variant, niche_variants, niche_start } => {
                    e.set("enc", J::s("niche"));
                    e.set("untagged", J::UInt(untagged_variant.as_usize() as u128));
                    e.set("niche_first", J::UInt(niche_variants.start().as_usize() as u128));
                    e.set("niche_last", J::UInt(niche_variants.end().as_usize() as u128));
                    e.set("niche_start", J::UInt(*niche_start));
                }
            }
            let mut vs = Vec::new();
            for v in variants.iter() {
                let offs = match &v.fields {
                    FieldsShape::Arbitrary { offsets, .. } => arr(offsets.iter().map(|o| J::UInt(o.bytes() as u128))),
                    _ => J::Arr(vec![]),
                };
                vs.push(offs);
            }
            e.set("variant_offs", J::Arr(vs));
            if let ty::Adt(def, _) = t.kind() {
                if def.is_enum() {
                    let ds: Vec<J> = def.discriminants(self.tcx).map(|(_, d)| J::UInt(d.val)).collect();
                    e.set("discrs", J::Arr(ds));
                }
            }
            d.set("enum_layout", e);
        }
        if let Variants::Single { .. } = l.variants {
            match &l.fields {
                FieldsShape::Arbitrary { offsets, .. } => {
                    d.set("offs", arr(offsets.iter().map(|o| J::UInt(o.bytes() as u128))));
                }
                FieldsShape::Union(n) => {
                    d.set("offs", arr((0..n.get()).map(|_| J::UInt(0))));
                }
                _ => {}
            }
        }
    }

    fn ty_desc(&mut self, t: Ty<'tcx>, env: TypingEnv<'tcx>) -> J {
        let tcx = self.tcx;
        let mut d = J::obj();
        d.set("s", J::s(format!("{}", t)));
        match *t.kind() {
            ty::Bool => {
                d.set("k", J::s("bool"));
            }
            ty::Char => {
                d.set("k", J::s("char"));
            }
            ty::Int(it) => {
                let w = it.bit_width().unwrap_or(tcx.data_layout.pointer_size().bits());
                d.set("k", J::s("int")).set("w", J::UInt(w as u128)).set("sg", J::Bool(true));
                if it.bit_width().is_none() {
                    d.set("psz", J::Bool(true));
                }
            }
            ty::Uint(ut) => {
                let w = ut.bit_width().unwrap_or(tcx.data_layout.pointer_size().bits());
                d.set("k", J::s("int")).set("w", J::UInt(w as u128)).set("sg", J::Bool(false));
                if ut.bit_width().is_none() {
                    d.set("psz", J::Bool(true));
                }
            }
            ty::Float(_) => {
                d.set("k", J::s("float"));
            }
            ty::Never => {
                d.set("k", J::s("never"));
            }
            ty::Str => {
                d.set("k", J::s("str"));
            }
            ty::Array(e, n) => {
                let et = self.ty(e, env);
                d.set("k", J::s("array")).set("e", et);
                match n.try_to_target_usize(tcx) {
                    Some(v) => d.set("n", J::UInt(v as u128)),
                    None => d.set("n", J::s(format!("{}", n))),
                };
            }
            ty::Slice(e) => {
                let et = self.ty(e, env);
                d.set("k", J::s("slice")).set("e", et);
            }
            ty::Ref(_, inner, m) => {
                let it = self.ty(inner, env);
                d.set("k", J::s("ref")).set("t", it).set("mut", J::Bool(m.is_mut()));
            }
            ty::RawPtr(inner, m) => {
                let it = self.ty(inner, env);
                d.set("k", J::s("ptr")).set("t", it).set("mut", J::Bool(m.is_mut()));
            }
            ty::Tuple(ts) => {
                let fs: Vec<J> = ts.iter().map(|x| self.ty(x, env)).collect();
                d.set("k", J::s("tuple")).set("f", J::Arr(fs));
            }
            ty::Adt(def, args) => {
                d.set("k", J::s("adt"));
                d.set("path", J::s(tcx.def_path_str(def.did())));
                d.set("crate", J::s(crate_name(tcx, def.did())));
                d.set(
                    "adt_kind",
                    J::s(if def.is_union() {
                        "union"
                    } else if def.is_enum() {
                        "enum"
                    } else {
                        "struct"
                    }),
                );
                let mut ga = Vec::new();
                for a in args.iter() {
                    if let Some(at) = a.as_type() {
                        ga.push(J::obj().with("t", self.ty(at, env)).with("s", J::s(format!("{}", at))));
                    } else if let Some(c) = a.as_const() {
                        ga.push(J::obj().with("c", J::s(format!("{}", c))));
                    }
                }
                d.set("args", J::Arr(ga));
                let mut vs = Vec::new();
                for v in def.variants().iter() {
                    let mut fs = Vec::new();
                    for f in v.fields.iter() {
                        let fty = f.ty(tcx, args);
                        let fty = tcx.try_normalize_erasing_regions(env, ty::Unnormalized::new_wip(fty)).unwrap_or(fty);
                        fs.push(
                            J::obj()
                                .with("name", J::s(f.name.to_string()))
                                .with("t", self.ty(fty, env))
                                .with("pub", J::Bool(f.vis.is_public())),
                        );
                    }
                    vs.push(J::obj().with("name", J::s(v.name.to_string())).with("f", J::Arr(fs)));
                }
                d.set("variants", J::Arr(vs));
                if def.is_manually_drop() {
                    d.set("manually_drop", J::Bool(true));
                }
                if def.is_phantom_data() {
                    d.set("phantom", J::Bool(true));
                }
                if def.is_unsafe_cell() {
                    d.set("unsafe_cell", J::Bool(true));
                }
            }
            ty::FnDef(did, args) => {
                d.set("k", J::s("fndef")).set("path", J::s(tcx.def_path_str_with_args(did, args)));
            }
            ty::FnPtr(..) => {
                d.set("k", J::s("fnptr"));
            }
            ty::Closure(did, args) => {
                d.set("k", J::s("closure")).set("path", J::s(tcx.def_path_str(did)));
                let ups: Vec<J> = args.as_closure().upvar_tys().iter().map(|x| self.ty(x, env)).collect();
                d.set("f", J::Arr(ups));
            }
            ty::Param(p) => {
                d.set("k", J::s("param")).set("name", J::s(p.name.to_string()));
            }
            ty::Pat(base, _) => {
                // pattern type (e.g. `*const T is !null` inside NonNull): same representation as its base
                let mut bd = self.ty_desc(base, env);
                bd.set("pat_of", self.ty(base, env));
                if let J::Obj(o) = &mut bd {
                    for (k, v) in o.iter_mut() {
                        if k == "s" {
                            *v = J::s(format!("{}", t));
                        }
                    }
                }
                return bd;
            }
            ty::Alias(..) => {
                d.set("k", J::s("alias"));
            }
            ty::Dynamic(..) => {
                d.set("k", J::s("dyn"));
            }
            ty::Foreign(_) => {
                d.set("k", J::s("foreign"));
            }
            _ => {
                d.set("k", J::s("other"));
            }
        }
        if !t.has_non_region_param() && !t.has_aliases() {
            d.set("freeze", J::Bool(t.is_freeze(tcx, env)));
            d.set("needs_drop", J::Bool(t.needs_drop(tcx, env)));
        }
        self.layout_info(t, env, &mut d);
        d
    }

    // ---------------------------------------------------------------- allocations
    fn alloc_ref(&mut self, id: AllocId, env: TypingEnv<'tcx>) -> J {
        if let Some(s) = self.alloc_ids.get(&id) {
            return J::s(s.clone());
        }
        let tcx = self.tcx;
        let key = format!("a{}", self.alloc_ids.len());
        self.alloc_ids.insert(id, key.clone());
        let mut d = J::obj();
        match tcx.try_get_global_alloc(id) {
            Some(GlobalAlloc::Memory(ca)) => {
                d.set("k", J::s("mem"));
                self.alloc_body(ca.inner(), &mut d, env);
            }
            Some(GlobalAlloc::Static(did)) => {
                d.set("k", J::s("static")).set("path", J::s(tcx.def_path_str(did)));
                self.static_fact(did, env);
            }
            Some(GlobalAlloc::Function { instance }) => {
                d.set("k", J::s("fn")).set("path", J::s(format!("{}", instance)));
            }
            Some(GlobalAlloc::VTable(..)) => {
                d.set("k", J::s("vtable"));
            }
            Some(GlobalAlloc::TypeId { .. }) => {
                d.set("k", J::s("typeid"));
            }
            None => {
                d.set("k", J::s("dangling"));
            }
        }
        self.allocs.push((key.clone(), d));
        J::s(key)
    }

    fn alloc_body(&mut self, a: &rustc_middle::mir::interpret::Allocation, d: &mut J, env: TypingEnv<'tcx>) {
        let n = a.len();
        let bytes = a.inspect_with_uninit_and_ptr_outside_interpreter(0..n);
        let mut hex = String::with_capacity(2 * n);
        for b in bytes {
            use std::fmt::Write;
            let _ = write!(hex, "{:02x}", b);
        }
        d.set("size", J::UInt(n as u128));
        d.set("align", J::UInt(a.align.bytes() as u128));
        d.set("mut", J::Bool(a.mutability.is_mut()));
        d.set("bytes", J::Str(hex));
        let mut ptrs = Vec::new();
        let prov: Vec<(Size, AllocId)> =
            a.provenance().ptrs().iter().map(|(o, p)| (*o, p.alloc_id())).collect();
        for (off, aid) in prov {
            let r = self.alloc_ref(aid, env);
            ptrs.push(arr([J::UInt(off.bytes() as u128), r]));
        }
        d.set("ptrs", J::Arr(ptrs));
        // is any byte uninitialised?
        let all_init = a.init_mask().is_range_initialized(rustc_middle::mir::interpret::alloc_range(Size::ZERO, Size::from_bytes(n as u64))).is_ok();
        d.set("init", J::Bool(all_init));
    }

    fn static_fact(&mut self, did: DefId, env: TypingEnv<'tcx>) {
        if !self.static_seen.insert(did) {
            return;
        }
        let tcx = self.tcx;
        let mut d = J::obj();
        d.set("path", J::s(tcx.def_path_str(did)));
        d.set("crate", J::s(crate_name(tcx, did)));
        let is_foreign = tcx.is_foreign_item(did);
        d.set("foreign", J::Bool(is_foreign));
        d.set("mutbl", J::Bool(matches!(tcx.static_mutability(did), Some(m) if m.is_mut())));
        d.set("thread_local", J::Bool(tcx.is_thread_local_static(did)));
        let t = tcx.type_of(did).instantiate_identity().skip_norm_wip();
        d.set("ty", self.ty(t, env));
        d.set("freeze", J::Bool(t.is_freeze(tcx, env)));
        let sp = tcx.def_span(did);
        d.set("span", J::s(span_str(tcx, sp)));
        d.set("expn", arr(expn_chain(sp).into_iter().map(J::s)));
        if !is_foreign {
            if let Ok(ca) = tcx.eval_static_initializer(did) {
                let mut ad = J::obj();
                self.alloc_body(ca.inner(), &mut ad, env);
                d.set("init", ad);
            }
        }
        self.statics.push(d);
    }

    // ---------------------------------------------------------------- constants
    fn const_j(&mut self, c: &Const<'tcx>, env: TypingEnv<'tcx>, sp: Span) -> J {
        let tcx = self.tcx;
        let t = c.ty();
        let mut d = J::obj();
        d.set("t", self.ty(t, env));
        if let ty::FnDef(did, args) = *t.kind() {
            let cd = self.callee(did, args, env);
            d.set("fn", cd);
            return d;
        }
        match c.eval(tcx, env, sp) {
            Ok(v) => self.const_value(v, t, env, &mut d),
            Err(_) => {
                d.set("uneval", J::s(format!("{}", c)));
            }
        }
        d
    }

    fn const_value(&mut self, v: ConstValue, t: Ty<'tcx>, env: TypingEnv<'tcx>, d: &mut J) {
        match v {
            ConstValue::Scalar(Scalar::Int(i)) => {
                let bits = i.to_bits(i.size());
                d.set("v", J::UInt(bits));
                d.set("sz", J::UInt(i.size().bytes() as u128));
                if let ty::Int(_) = t.kind() {
                    // signed value as well
                    let sz = i.size().bits();
                    let sv: i128 = if sz == 0 {
                        0
                    } else if sz == 128 {
                        bits as i128
                    } else if bits >> (sz - 1) & 1 == 1 {
                        (bits as i128) - (1i128 << sz)
                    } else {
                        bits as i128
                    };
                    d.set("sv", J::Int(sv));
                }
            }
            ConstValue::Scalar(Scalar::Ptr(p, _)) => {
                let (prov, off) = p.into_raw_parts();
                let r = self.alloc_ref(prov.alloc_id(), env);
                d.set("ptr", r);
                d.set("off", J::UInt(off.bytes() as u128));
            }
            ConstValue::ZeroSized => {
                d.set("zst", J::Bool(true));
            }
            ConstValue::Slice { alloc_id, meta } => {
                let r = self.alloc_ref(alloc_id, env);
                d.set("ptr", r);
                d.set("off", J::UInt(0));
                d.set("len", J::UInt(meta as u128));
            }
            ConstValue::Indirect { alloc_id, offset } => {
                let r = self.alloc_ref(alloc_id, env);
                d.set("alloc", r);
                d.set("off", J::UInt(offset.bytes() as u128));
            }
        }
    }

    // ---------------------------------------------------------------- callees
    fn callee(&mut self, did: DefId, args: GenericArgsRef<'tcx>, env: TypingEnv<'tcx>) -> J {
        let tcx = self.tcx;
        let mut d = J::obj();
        d.set("decl", J::s(tcx.def_path_str(did)));
        d.set("decl_crate", J::s(crate_name(tcx, did)));
        d.set("name", J::s(tcx.item_name(did).to_string()));
        if let Some(tr) = tcx.trait_of_assoc(did) {
            d.set("trait", J::s(tcx.def_path_str(tr)));
        }
        let mut ga = Vec::new();
        let mut gs = Vec::new();
        for a in args.iter() {
            if let Some(at) = a.as_type() {
                ga.push(self.ty(at, env));
                gs.push(J::s(format!("{}", at)));
            } else if let Some(c) = a.as_const() {
                gs.push(J::s(format!("{}", c)));
            }
        }
        d.set("targs", J::Arr(ga));
        d.set("gargs", J::Arr(gs));
        let sig_unsafe = matches!(tcx.def_kind(did), DefKind::Fn | DefKind::AssocFn)
            && tcx.fn_sig(did).skip_binder().safety().is_unsafe();
        d.set("unsafe", J::Bool(sig_unsafe));
        if let Some(i) = tcx.intrinsic(did) {
            d.set("intrinsic", J::s(i.name.to_string()));
        }
        if tcx.is_foreign_item(did) {
            d.set("foreign", J::Bool(true));
        }
        if let DefKind::Ctor(of, _) = tcx.def_kind(did) {
            // a tuple-struct / tuple-variant constructor used as a function
            d.set("ctor", J::s(format!("{:?}", of)));
            let parent = tcx.parent(did);
            if let rustc_hir::def::CtorOf::Variant = of {
                let en = tcx.parent(parent);
                let adt = tcx.adt_def(en);
                d.set("ctor_variant", J::UInt(adt.variant_index_with_id(parent).as_usize() as u128));
            }
        }
        // resolve
        let can_resolve = !args.has_non_region_param() || !self.mono;
        if can_resolve {
            match Instance::try_resolve(tcx, env, did, args) {
                Ok(Some(inst)) => {
                    let rd = inst.def_id();
                    d.set("path", J::s(tcx.def_path_str(rd)));
                    d.set("crate", J::s(crate_name(tcx, rd)));
                    d.set("full", J::s(format!("{}", inst)));
                    d.set("ik", J::s(inst_kind(&inst)));
                    if let Some(im) = tcx.impl_of_assoc(rd) {
                        let st = tcx.type_of(im).instantiate_identity().skip_norm_wip();
                        d.set("impl_self", J::s(format!("{}", st)));
                    }
                    if self.mono && !inst.args.has_non_region_param() {
                        if let Some(id) = self.enqueue(inst) {
                            d.set("inst", J::UInt(id as u128));
                        }
                    }
                }
                _ => {}
            }
        }
        d
    }

    fn has_body(&self, inst: &Instance<'tcx>) -> bool {
        let tcx = self.tcx;
        match inst.def {
            InstanceKind::Item(did) => {
                if tcx.is_foreign_item(did) {
                    return false;
                }
                if tcx.intrinsic(did).map(|i| i.must_be_overridden).unwrap_or(false) {
                    return false;
                }
                if !matches!(tcx.def_kind(did), DefKind::Fn | DefKind::AssocFn | DefKind::Closure | DefKind::Ctor(..)) {
                    return false;
                }
                tcx.is_mir_available(did)
            }
            InstanceKind::Intrinsic(_) | InstanceKind::Virtual(..) => false,
            _ => true,
        }
    }

    fn enqueue(&mut self, inst: Instance<'tcx>) -> Option<usize> {
        if let Some(&i) = self.inst_ids.get(&inst) {
            return Some(i);
        }
        if !self.has_body(&inst) {
            return None;
        }
        let id = self.inst_list.len();
        self.inst_ids.insert(inst, id);
        self.inst_list.push(inst);
        self.queue.push_back(inst);
        Some(id)
    }

    // ---------------------------------------------------------------- MIR
    fn place(&mut self, p: &Place<'tcx>, body: &Body<'tcx>, env: TypingEnv<'tcx>) -> J {
        let mut v = vec![J::UInt(p.local.as_usize() as u128)];
        let tcx = self.tcx;
        let mut pt = mir::PlaceTy::from_ty(body.local_decls[p.local].ty);
        for e in p.projection.iter() {
            let j = match e {
                ProjectionElem::Deref => J::s("*"),
                ProjectionElem::Field(f, t) => {
                    let mut a = vec![J::s("f"), J::UInt(f.as_usize() as u128), self.ty(t, env)];
                    // field name, when the base is an ADT
                    if let ty::Adt(def, _) = pt.ty.kind() {
                        let vi = pt.variant_index.unwrap_or(rustc_abi::FIRST_VARIANT);
                        if let Some(fd) = def.variant(vi).fields.get(f) {
                            a.push(J::s(fd.name.to_string()));
                        }
                    }
                    J::Arr(a)
                }
                ProjectionElem::Index(l) => arr([J::s("i"), J::UInt(l.as_usize() as u128)]),
                ProjectionElem::ConstantIndex { offset, min_length, from_end } => {
                    arr([J::s("c"), J::UInt(offset as u128), J::UInt(min_length as u128), J::Bool(from_end)])
                }
                ProjectionElem::Subslice { from, to, from_end } => {
                    arr([J::s("s"), J::UInt(from as u128), J::UInt(to as u128), J::Bool(from_end)])
                }
                ProjectionElem::Downcast(name, vi) => arr([
                    J::s("d"),
                    J::UInt(vi.as_usize() as u128),
                    J::s(name.map(|s| s.to_string()).unwrap_or_default()),
                ]),
                ProjectionElem::OpaqueCast(t) => arr([J::s("o"), self.ty(t, env)]),
                ProjectionElem::UnwrapUnsafeBinder(t) => arr([J::s("u"), self.ty(t, env)]),
            };
            v.push(j);
            pt = pt.projection_ty(tcx, e);
        }
        J::Arr(v)
    }

    fn operand(&mut self, o: &Operand<'tcx>, body: &Body<'tcx>, env: TypingEnv<'tcx>) -> J {
        match o {
            Operand::Copy(p) => arr([J::s("cp"), self.place(p, body, env)]),
            Operand::Move(p) => arr([J::s("mv"), self.place(p, body, env)]),
            Operand::Constant(c) => arr([J::s("k"), self.const_j(&c.const_, env, c.span)]),
            Operand::RuntimeChecks(rc) => arr([J::s("rtc"), J::s(format!("{:?}", rc))]),
        }
    }

    fn rvalue(&mut self, r: &Rvalue<'tcx>, body: &Body<'tcx>, env: TypingEnv<'tcx>) -> J {
        let tcx = self.tcx;
        match r {
            Rvalue::Use(o, _) => arr([J::s("use"), self.operand(o, body, env)]),
            Rvalue::Repeat(o, n) => {
                let nv = match n.try_to_target_usize(tcx) {
                    Some(v) => J::UInt(v as u128),
                    None => J::s(format!("{}", n)),
                };
                arr([J::s("rep"), self.operand(o, body, env), nv])
            }
            Rvalue::Ref(_, bk, p) => {
                let m = matches!(bk, BorrowKind::Mut { .. });
                arr([J::s("ref"), J::Bool(m), self.place(p, body, env)])
            }
            Rvalue::RawPtr(k, p) => {
                let m = matches!(k, mir::RawPtrKind::Mut);
                arr([J::s("raw"), J::Bool(m), self.place(p, body, env)])
            }
            Rvalue::Cast(k, o, t) => {
                let ks = match k {
                    CastKind::PointerCoercion(pc, _) => format!("PointerCoercion({:?})", pc),
                    other => format!("{:?}", other),
                };
                let src_t = o.ty(&body.local_decls, tcx);
                arr([J::s("cast"), J::s(ks), self.operand(o, body, env), self.ty(*t, env), self.ty(src_t, env)])
            }
            Rvalue::BinaryOp(op, ab) => {
                let (a, b) = &**ab;
                let at = a.ty(&body.local_decls, tcx);
                arr([
                    J::s("bin"),
                    J::s(format!("{:?}", op)),
                    self.operand(a, body, env),
                    self.operand(b, body, env),
                    self.ty(at, env),
                ])
            }
            Rvalue::UnaryOp(op, a) => {
                let at = a.ty(&body.local_decls, tcx);
                arr([J::s("un"), J::s(format!("{:?}", op)), self.operand(a, body, env), self.ty(at, env)])
            }
            Rvalue::Discriminant(p) => arr([J::s("discr"), self.place(p, body, env)]),
            Rvalue::Aggregate(k, ops) => {
                let kd = match &**k {
                    AggregateKind::Array(t) => arr([J::s("array"), self.ty(*t, env)]),
                    AggregateKind::Tuple => arr([J::s("tuple")]),
                    AggregateKind::Adt(did, vi, args, _, active) => {
                        let t = Ty::new_adt(tcx, tcx.adt_def(*did), args);
                        arr([
                            J::s("adt"),
                            self.ty(t, env),
                            J::UInt(vi.as_usize() as u128),
                            match active {
                                Some(f) => J::UInt(f.as_usize() as u128),
                                None => J::Null,
                            },
                        ])
                    }
                    AggregateKind::Closure(did, args) => {
                        let t = Ty::new_closure(tcx, *did, args);
                        arr([J::s("closure"), self.ty(t, env)])
                    }
                    AggregateKind::RawPtr(t, m) => arr([J::s("rawptr"), self.ty(*t, env), J::Bool(m.is_mut())]),
                    _ => arr([J::s("other")]),
                };
                let os: Vec<J> = ops.iter().map(|o| self.operand(o, body, env)).collect();
                arr([J::s("agg"), kd, J::Arr(os)])
            }
            Rvalue::CopyForDeref(p) => arr([J::s("use"), arr([J::s("cp"), self.place(p, body, env)])]),
            Rvalue::ThreadLocalRef(did) => arr([J::s("tls"), J::s(tcx.def_path_str(*did))]),
            Rvalue::WrapUnsafeBinder(o, _) => arr([J::s("use"), self.operand(o, body, env)]),
        }
    }

    fn body(&mut self, body: &Body<'tcx>, env: TypingEnv<'tcx>) -> J {
        let tcx = self.tcx;
        let mut d = J::obj();
        d.set("argc", J::UInt(body.arg_count as u128));
        if let Some(sa) = body.spread_arg {
            d.set("spread", J::UInt(sa.as_usize() as u128));
        }
        let locals: Vec<J> = body.local_decls.iter().map(|l| self.ty(l.ty, env)).collect();
        d.set("locals", J::Arr(locals));
        let mut names = Vec::new();
        for vdi in body.var_debug_info.iter() {
            if let mir::VarDebugInfoContents::Place(p) = &vdi.value {
                if p.projection.is_empty() {
                    names.push(arr([J::UInt(p.local.as_usize() as u128), J::s(vdi.name.to_string())]));
                }
            }
        }
        d.set("names", J::Arr(names));
        let mut bbs = Vec::new();
        for (_bb, data) in body.basic_blocks.iter_enumerated() {
            let mut b = J::obj();
            if data.is_cleanup {
                b.set("cleanup", J::Bool(true));
                b.set("s", J::Arr(vec![]));
                b.set("t", J::obj().with("k", J::s("cleanup")));
                bbs.push(b);
                continue;
            }
            let mut ss = Vec::new();
            for st in data.statements.iter() {
                let line = self.line(st.source_info.span);
                match &st.kind {
                    StatementKind::Assign(bx) => {
                        let (p, r) = &**bx;
                        ss.push(arr([J::s("="), self.place(p, body, env), self.rvalue(r, body, env), line]));
                    }
                    StatementKind::SetDiscriminant { place, variant_index } => {
                        ss.push(arr([
                            J::s("setdiscr"),
                            self.place(place, body, env),
                            J::UInt(variant_index.as_usize() as u128),
                            line,
                        ]));
                    }
                    StatementKind::Intrinsic(bx) => match &**bx {
                        NonDivergingIntrinsic::Assume(o) => {
                            ss.push(arr([J::s("assume"), self.operand(o, body, env), line]));
                        }
                        NonDivergingIntrinsic::CopyNonOverlapping(c) => {
                            ss.push(arr([
                                J::s("copy_nonoverlapping"),
                                self.operand(&c.src, body, env),
                                self.operand(&c.dst, body, env),
                                self.operand(&c.count, body, env),
                                line,
                            ]));
                        }
                    },
                    StatementKind::StorageDead(l) => {
                        ss.push(arr([J::s("dead"), J::UInt(l.as_usize() as u128)]));
                    }
                    _ => {}
                }
            }
            b.set("s", J::Arr(ss));
            let term = data.terminator();
            let sp = term.source_info.span;
            let mut t = J::obj();
            t.set("l", self.line(sp));
            if sp.from_expansion() {
                t.set("x", arr(expn_chain(sp).into_iter().map(J::s)));
            }
            let bbj = |b: BasicBlock| J::UInt(b.as_usize() as u128);
            match &term.kind {
                TerminatorKind::Goto { target } => {
                    t.set("k", J::s("goto")).set("t", bbj(*target));
                }
                TerminatorKind::FalseEdge { real_target, .. } => {
                    t.set("k", J::s("goto")).set("t", bbj(*real_target));
                }
                TerminatorKind::FalseUnwind { real_target, .. } => {
                    t.set("k", J::s("goto")).set("t", bbj(*real_target));
                }
                TerminatorKind::SwitchInt { discr, targets } => {
                    t.set("k", J::s("sw"));
                    t.set("op", self.operand(discr, body, env));
                    let dt = discr.ty(&body.local_decls, tcx);
                    t.set("ty", self.ty(dt, env));
                    let vs: Vec<J> = targets.iter().map(|(v, b)| arr([J::UInt(v), bbj(b)])).collect();
                    t.set("v", J::Arr(vs));
                    t.set("o", bbj(targets.otherwise()));
                }
                TerminatorKind::Return => {
                    t.set("k", J::s("ret"));
                }
                TerminatorKind::Unreachable => {
                    t.set("k", J::s("unr"));
                }
                TerminatorKind::UnwindResume => {
                    t.set("k", J::s("resume"));
                }
                TerminatorKind::UnwindTerminate(_) => {
                    t.set("k", J::s("abort"));
                }
                TerminatorKind::Drop { place, target, .. } => {
                    t.set("k", J::s("drop"));
                    t.set("p", self.place(place, body, env));
                    t.set("t", bbj(*target));
                    let pt = place.ty(&body.local_decls, tcx).ty;
                    t.set("ty", self.ty(pt, env));
                    if self.mono && !pt.has_non_region_param() {
                        let inst = Instance::resolve_drop_in_place(tcx, pt);
                        if let InstanceKind::DropGlue(_, None) = inst.def {
                            t.set("noop", J::Bool(true));
                        } else if let Some(id) = self.enqueue(inst) {
                            t.set("inst", J::UInt(id as u128));
                        }
                    }
                }
                TerminatorKind::Call { func, args, destination, target, fn_span, .. } => {
                    t.set("k", J::s("call"));
                    let fty = func.ty(&body.local_decls, tcx);
                    match *fty.kind() {
                        ty::FnDef(did, ga) => {
                            t.set("f", self.callee(did, ga, env));
                        }
                        _ => {
                            t.set("fop", self.operand(func, body, env));
                        }
                    }
                    let as_: Vec<J> = args.iter().map(|a| self.operand(&a.node, body, env)).collect();
                    t.set("a", J::Arr(as_));
                    t.set("d", self.place(destination, body, env));
                    match target {
                        Some(b) => t.set("t", bbj(*b)),
                        None => t.set("t", J::Null),
                    };
                    if fn_span.from_expansion() {
                        t.set("fx", arr(expn_chain(*fn_span).into_iter().map(J::s)));
                    }
                }
                TerminatorKind::TailCall { func, args, .. } => {
                    t.set("k", J::s("tailcall"));
                    let fty = func.ty(&body.local_decls, tcx);
                    if let ty::FnDef(did, ga) = *fty.kind() {
                        t.set("f", self.callee(did, ga, env));
                    }
                    let as_: Vec<J> = args.iter().map(|a| self.operand(&a.node, body, env)).collect();
                    t.set("a", J::Arr(as_));
                }
                TerminatorKind::Assert { cond, expected, msg, target, .. } => {
                    t.set("k", J::s("assert"));
                    t.set("c", self.operand(cond, body, env));
                    t.set("e", J::Bool(*expected));
                    t.set("t", bbj(*target));
                    let mut m = J::obj();
                    use mir::AssertKind::*;
                    match &**msg {
                        BoundsCheck { len, index } => {
                            m.set("k", J::s("BoundsCheck"));
                            m.set("len", self.operand(len, body, env));
                            m.set("index", self.operand(index, body, env));
                        }
                        Overflow(op, a, b) => {
                            m.set("k", J::s("Overflow"));
                            m.set("op", J::s(format!("{:?}", op)));
                            m.set("a", self.operand(a, body, env));
                            m.set("b", self.operand(b, body, env));
                        }
                        OverflowNeg(a) => {
                            m.set("k", J::s("OverflowNeg"));
                            m.set("a", self.operand(a, body, env));
                        }
                        DivisionByZero(a) => {
                            m.set("k", J::s("DivisionByZero"));
                            m.set("a", self.operand(a, body, env));
                        }
                        RemainderByZero(a) => {
                            m.set("k", J::s("RemainderByZero"));
                            m.set("a", self.operand(a, body, env));
                        }
                        MisalignedPointerDereference { required, found } => {
                            m.set("k", J::s("MisalignedPointerDereference"));
                            m.set("required", self.operand(required, body, env));
                            m.set("found", self.operand(found, body, env));
                        }
                        NullPointerDereference => {
                            m.set("k", J::s("NullPointerDereference"));
                        }
                        other => {
                            m.set("k", J::s(format!("{:?}", other)));
                        }
                    }
                    t.set("m", m);
                }
                TerminatorKind::InlineAsm { targets, .. } => {
                    t.set("k", J::s("asm"));
                    t.set("t", match targets.first() {
                        Some(b) => bbj(*b),
                        None => J::Null,
                    });
                }
                other => {
                    t.set("k", J::s("other")).set("dbg", J::s(format!("{:?}", other)));
                }
            }
            b.set("t", t);
            bbs.push(b);
        }
        d.set("bbs", J::Arr(bbs));
        d
    }

    fn line(&self, sp: Span) -> J {
        if sp.is_dummy() {
            return J::UInt(0);
        }
        // the line of the outermost call site (so that macro-generated code points into the repo)
        let sp = sp.source_callsite();
        let lo = self.tcx.sess.source_map().lookup_char_pos(sp.lo());
        J::UInt(lo.line as u128)
    }

    fn fn_header(&mut self, did: DefId, d: &mut J) {
        let tcx = self.tcx;
        d.set("path", J::s(tcx.def_path_str(did)));
        d.set("crate", J::s(crate_name(tcx, did)));
        let sp = tcx.def_span(did);
        d.set("span", J::s(span_str(tcx, sp.source_callsite())));
        d.set("expn", arr(expn_chain(sp).into_iter().map(J::s)));
        let dk = tcx.def_kind(did);
        d.set("def_kind", J::s(format!("{:?}", dk)));
        if matches!(dk, DefKind::Fn | DefKind::AssocFn) {
            d.set("unsafe_fn", J::Bool(tcx.fn_sig(did).skip_binder().safety().is_unsafe()));
            d.set("pub", J::Bool(tcx.visibility(did).is_public()));
            if let Some(l) = did.as_local() {
                d.set("reachable", J::Bool(tcx.effective_visibilities(()).is_reachable(l)));
            }
        }
        if let Some(im) = tcx.impl_of_assoc(did) {
            let st = tcx.type_of(im).instantiate_identity().skip_norm_wip();
            d.set("impl_self", J::s(format!("{}", st)));
            if let Some(tr) = tcx.impl_opt_trait_ref(im) {
                let tr = tr.instantiate_identity().skip_norm_wip();
                d.set("impl_trait", J::s(tcx.def_path_str(tr.def_id)));
            }
        }
        if matches!(dk, DefKind::AssocFn | DefKind::Fn | DefKind::Closure) {
            if let Some(n) = tcx.opt_item_name(did) {
                d.set("name", J::s(n.to_string()));
            }
        }
    }
}

fn inst_kind(i: &Instance<'_>) -> &'static str {
    match i.def {
        InstanceKind::Item(_) => "Item",
        InstanceKind::Intrinsic(_) => "Intrinsic",
        InstanceKind::VTableShim(_) => "VTableShim",
        InstanceKind::ReifyShim(..) => "ReifyShim",
        InstanceKind::FnPtrShim(..) => "FnPtrShim",
        InstanceKind::Virtual(..) => "Virtual",
        InstanceKind::ClosureOnceShim { .. } => "ClosureOnceShim",
        InstanceKind::DropGlue(..) => "DropGlue",
        InstanceKind::CloneShim(..) => "CloneShim",
        _ => "Other",
    }
}

// =====================================================================================
pub fn run<'tcx>(tcx: TyCtxt<'tcx>, mode: Mode, out: &str) {
    use rustc_middle::ty::print::{with_no_trimmed_paths, with_no_visible_paths, with_resolve_crate_name};
    with_resolve_crate_name!(with_no_visible_paths!(with_no_trimmed_paths!(run_inner(tcx, mode, out))))
}

fn run_inner<'tcx>(tcx: TyCtxt<'tcx>, mode: Mode, out: &str) {
    let name = tcx.crate_name(LOCAL_CRATE).to_string();
    let mut root = J::obj();
    root.set("crate", J::s(name.clone()));
    root.set("target", J::s(tcx.sess.opts.target_triple.tuple().to_string()));
    let mut cfgs: Vec<String> = tcx
        .sess
        .config
        .iter()
        .map(|(k, v)| match v {
            Some(v) => format!("{}=\"{}\"", k, v),
            None => k.to_string(),
        })
        .collect();
    cfgs.sort();
    root.set("cfg", arr(cfgs.into_iter().map(J::s)));
    let file = match mode {
        Mode::Crate => {
            root.set("kind", J::s("crate"));
            let mut ex = Ex::new(tcx, false);
            crate_facts(&mut ex, &mut root);
            finish(ex, &mut root);
            format!("{}/crate-{}.json", out, name)
        }
        Mode::Mono => {
            root.set("kind", J::s("mono"));
            // the roots crate also gets per-crate facts (its type aliases name the
            // hand-instantiated generic cipher types)
            {
                let mut croot = J::obj();
                croot.set("crate", J::s(name.clone()));
                croot.set("kind", J::s("crate"));
                let mut ex = Ex::new(tcx, false);
                crate_facts(&mut ex, &mut croot);
                finish(ex, &mut croot);
                let mut s = String::new();
                croot.write(&mut s);
                let f = format!("{}/crate-{}.json", out, name);
                std::fs::write(format!("{}.tmp", f), s).expect("write facts");
                std::fs::rename(format!("{}.tmp", f), &f).expect("rename facts");
            }
            let mut ex = Ex::new(tcx, true);
            mono_facts(&mut ex, &mut root);
            finish(ex, &mut root);
            format!("{}/mono-{}.json", out, name)
        }
    };
    let mut s = String::new();
    root.write(&mut s);
    let tmp = format!("{}.tmp", file);
    std::fs::write(&tmp, s).expect("write facts");
    std::fs::rename(&tmp, &file).expect("rename facts");
}

fn finish(ex: Ex<'_>, root: &mut J) {
    root.set("types", J::Arr(ex.types));
    root.set("allocs", J::Obj(ex.allocs));
    root.set("statics", J::Arr(ex.statics));
}

fn generics_list(tcx: TyCtxt<'_>, did: DefId) -> J {
    let g = tcx.generics_of(did);
    let mut v = Vec::new();
    let mut cur = Some(g);
    let mut stack = Vec::new();
    while let Some(gg) = cur {
        stack.push(gg);
        cur = gg.parent.map(|p| tcx.generics_of(p));
    }
    for gg in stack.into_iter().rev() {
        for p in gg.own_params.iter() {
            let k = match p.kind {
                ty::GenericParamDefKind::Lifetime => "lifetime",
                ty::GenericParamDefKind::Type { .. } => "type",
                ty::GenericParamDefKind::Const { .. } => "const",
            };
            v.push(J::obj().with("name", J::s(p.name.to_string())).with("kind", J::s(k)));
        }
    }
    J::Arr(v)
}

fn crate_facts<'tcx>(ex: &mut Ex<'tcx>, root: &mut J) {
    let tcx = ex.tcx;
    let mut adts = Vec::new();
    let mut impls = Vec::new();
    let mut aliases = Vec::new();
    let mut fns = Vec::new();
    let mut consts = Vec::new();
    let items = tcx.hir_crate_items(());
    for id in items.definitions() {
        let did = id.to_def_id();
        let dk = tcx.def_kind(did);
        let env = if matches!(
            dk,
            DefKind::Struct
                | DefKind::Union
                | DefKind::Enum
                | DefKind::Fn
                | DefKind::AssocFn
                | DefKind::Impl { .. }
                | DefKind::TyAlias
                | DefKind::Static { .. }
                | DefKind::Const { .. }
                | DefKind::AssocConst { .. }
                | DefKind::Closure
        ) {
            TypingEnv::post_analysis(tcx, did)
        } else {
            continue;
        };
        match dk {
            DefKind::Struct | DefKind::Union | DefKind::Enum => {
                let def = tcx.adt_def(did);
                let mut d = J::obj();
                d.set("path", J::s(tcx.def_path_str(did)));
                d.set("kind", J::s(if def.is_union() { "union" } else if def.is_enum() { "enum" } else { "struct" }));
                d.set("pub", J::Bool(tcx.visibility(did).is_public()));
                d.set("generics", generics_list(tcx, did));
                d.set("span", J::s(span_str(tcx, tcx.def_span(did).source_callsite())));
                d.set("expn", arr(expn_chain(tcx.def_span(did)).into_iter().map(J::s)));
                d.set("repr", J::s(format!("{:?}", def.repr())));
                let t = tcx.type_of(did).instantiate_identity().skip_norm_wip();
                d.set("ty", ex.ty(t, env));
                let mut vs = Vec::new();
                for v in def.variants().iter() {
                    let mut fs = Vec::new();
                    for f in v.fields.iter() {
                        let ft = tcx.type_of(f.did).instantiate_identity().skip_norm_wip();
                        fs.push(
                            J::obj()
                                .with("name", J::s(f.name.to_string()))
                                .with("t", ex.ty(ft, env))
                                .with("s", J::s(format!("{}", ft)))
                                .with("pub", J::Bool(f.vis.is_public())),
                        );
                    }
                    vs.push(J::obj().with("name", J::s(v.name.to_string())).with("f", J::Arr(fs)));
                }
                d.set("variants", J::Arr(vs));
                adts.push(d);
            }
            DefKind::TyAlias => {
                let t = tcx.type_of(did).instantiate_identity().skip_norm_wip();
                let mut d = J::obj();
                d.set("path", J::s(tcx.def_path_str(did)));
                d.set("pub", J::Bool(tcx.visibility(did).is_public()));
                d.set("generics", generics_list(tcx, did));
                d.set("ty", ex.ty(t, env));
                d.set("s", J::s(format!("{}", t)));
                aliases.push(d);
            }
            DefKind::Impl { of_trait } => {
                let mut d = J::obj();
                d.set("path", J::s(tcx.def_path_str(did)));
                let st = tcx.type_of(did).instantiate_identity().skip_norm_wip();
                d.set("self", ex.ty(st, env));
                d.set("self_s", J::s(format!("{}", st)));
                d.set("generics", generics_list(tcx, did));
                let sp = tcx.def_span(did);
                d.set("span", J::s(span_str(tcx, sp.source_callsite())));
                d.set("expn", arr(expn_chain(sp).into_iter().map(J::s)));
                if of_trait {
                    let tr = tcx.impl_trait_ref(did).instantiate_identity().skip_norm_wip();
                    d.set("trait", J::s(tcx.def_path_str(tr.def_id)));
                    d.set("trait_full", J::s(format!("{}", tr.print_only_trait_path())));
                    let hdr = tcx.impl_trait_header(did);
                    d.set("unsafe", J::Bool(hdr.safety.is_unsafe()));
                    d.set("negative", J::Bool(matches!(hdr.polarity, ty::ImplPolarity::Negative)));
                }
                let mut its = Vec::new();
                for &ai in tcx.associated_item_def_ids(did) {
                    let a = tcx.associated_item(ai);
                    let mut ad = J::obj();
                    ad.set("name", J::s(a.name().to_string()));
                    ad.set("kind", J::s(format!("{:?}", a.kind.as_def_kind())));
                    ad.set("path", J::s(tcx.def_path_str(ai)));
                    if let ty::AssocKind::Type { .. } = a.kind {
                        let at = tcx.type_of(ai).instantiate_identity().skip_norm_wip();
                        ad.set("ty_s", J::s(format!("{}", at)));
                        ad.set("ty", ex.ty(at, env));
                    }
                    its.push(ad);
                }
                d.set("items", J::Arr(its));
                impls.push(d);
            }
            DefKind::Static { .. } => {
                ex.static_fact(did, env);
            }
            DefKind::Const { .. } | DefKind::AssocConst { .. } => {
                // evaluated value of monomorphic constants (tables)
                let g = tcx.generics_of(did);
                if g.count() == 0 && tcx.hir_maybe_body_owned_by(id).is_some() {
                    let t = tcx.type_of(did).instantiate_identity().skip_norm_wip();
                    if let Ok(v) = tcx.const_eval_poly(did) {
                        let mut d = J::obj();
                        d.set("path", J::s(tcx.def_path_str(did)));
                        d.set("t", ex.ty(t, env));
                        ex.const_value(v, t, env, &mut d);
                        consts.push(d);
                    }
                }
            }
            DefKind::Fn | DefKind::AssocFn | DefKind::Closure => {
                if !tcx.is_mir_available(did) {
                    continue;
                }
                if tcx.hir_maybe_body_owned_by(id).is_none() {
                    continue;
                }
                // const fn bodies: optimized_mir is still fine (it is the runtime MIR)
                let body = tcx.optimized_mir(did);
                let mut d = J::obj();
                ex.fn_header(did, &mut d);
                d.set("generics", generics_list(tcx, did));
                // unsafe blocks / unsafe operations: THIR-level, recorded from HIR
                let b = ex.body(body, env);
                d.set("mir", b);
                fns.push(d);
            }
            _ => {}
        }
    }
    // unsafe blocks in HIR (count per owner)
    let mut unsafe_blocks = Vec::new();
    {
        use rustc_hir::intravisit::{self, Visitor};
        struct V<'a, 'tcx> {
            tcx: TyCtxt<'tcx>,
            out: &'a mut Vec<J>,
        }
        impl<'a, 'tcx> Visitor<'tcx> for V<'a, 'tcx> {
            type NestedFilter = rustc_middle::hir::nested_filter::All;
            fn maybe_tcx(&mut self) -> TyCtxt<'tcx> {
                self.tcx
            }
            fn visit_block(&mut self, b: &'tcx rustc_hir::Block<'tcx>) {
                if let rustc_hir::BlockCheckMode::UnsafeBlock(src) = b.rules {
                    let owner = self.tcx.hir_get_parent_item(b.hir_id);
                    self.out.push(
                        J::obj()
                            .with("owner", J::s(self.tcx.def_path_str(owner.to_def_id())))
                            .with("span", J::s(span_str(self.tcx, b.span.source_callsite())))
                            .with("user", J::Bool(matches!(src, rustc_hir::UnsafeSource::UserProvided)))
                            .with("expn", arr(expn_chain(b.span).into_iter().map(J::s))),
                    );
                }
                intravisit::walk_block(self, b);
            }
        }
        let mut v = V { tcx, out: &mut unsafe_blocks };
        tcx.hir_walk_toplevel_module(&mut v);
    }

    // publicly nameable items: walk pub modules / re-exports from the crate root
    let mut exports = Vec::new();
    {
        use rustc_hir::def::Res;
        let mut stack: Vec<(rustc_hir::def_id::LocalDefId, String)> =
            vec![(rustc_hir::def_id::CRATE_DEF_ID, tcx.crate_name(LOCAL_CRATE).to_string())];
        let mut seen = FxHashSet::default();
        while let Some((m, prefix)) = stack.pop() {
            if !seen.insert(m) {
                continue;
            }
            for ch in tcx.module_children_local(m) {
                if !ch.vis.is_public() {
                    continue;
                }
                let Res::Def(dk, did) = ch.res else { continue };
                let pub_path = format!("{}::{}", prefix, ch.ident.name);
                exports.push(
                    J::obj()
                        .with("pub_path", J::s(pub_path.clone()))
                        .with("path", J::s(tcx.def_path_str(did)))
                        .with("crate", J::s(crate_name(tcx, did)))
                        .with("kind", J::s(format!("{:?}", dk))),
                );
                if dk == DefKind::Mod {
                    if let Some(l) = did.as_local() {
                        stack.push((l, pub_path));
                    }
                }
            }
        }
    }
    root.set("exports", J::Arr(exports));
    // which traits does each concrete (non-generic) local ADT / alias target implement?
    let mut type_traits = Vec::new();
    {
        use rustc_infer::infer::TyCtxtInferExt;
        use rustc_trait_selection::infer::InferCtxtExt;
        let mut cands: Vec<DefId> = tcx.all_local_trait_impls(()).keys().copied().collect();
        for tr in tcx.all_traits_including_private() {
            let p = tcx.def_path_str(tr);
            if matches!(
                p.as_str(),
                "core::marker::Send"
                    | "core::marker::Sync"
                    | "core::marker::Copy"
                    | "core::marker::Freeze"
                    | "core::marker::Unpin"
                    | "core::clone::Clone"
                    | "core::fmt::Debug"
                    | "core::ops::drop::Drop"
                    | "crypto_common::KeyInit"
                    | "crypto_common::AlgorithmName"
                    | "cipher::block::BlockCipherEncrypt"
                    | "cipher::block::BlockCipherDecrypt"
                    | "zeroize::ZeroizeOnDrop"
                    | "zeroize::Zeroize"
            ) {
                cands.push(tr);
            }
        }
        cands.sort_by_key(|d| tcx.def_path_str(*d));
        cands.dedup();
        let mut tys: Vec<(String, Ty<'tcx>, DefId)> = Vec::new();
        for id in items.definitions() {
            let did = id.to_def_id();
            match tcx.def_kind(did) {
                DefKind::Struct | DefKind::Union | DefKind::Enum | DefKind::TyAlias => {
                    if tcx.generics_of(did).count() != 0 {
                        continue;
                    }
                    let t = tcx.type_of(did).instantiate_identity().skip_norm_wip();
                    if t.has_non_region_param() || t.has_aliases() {
                        continue;
                    }
                    tys.push((tcx.def_path_str(did), t, did));
                }
                _ => {}
            }
        }
        let env = TypingEnv::fully_monomorphized();
        let (infcx, penv) = tcx.infer_ctxt().build_with_typing_env(env);
        for (path, t, did) in tys {
            let mut trs = Vec::new();
            for &tr in cands.iter() {
                if tcx.generics_of(tr).count() != 1 {
                    continue;
                }
                if infcx.type_implements_trait(tr, [t], penv).must_apply_modulo_regions() {
                    trs.push(J::s(tcx.def_path_str(tr)));
                }
            }
            type_traits.push(
                J::obj()
                    .with("path", J::s(path))
                    .with("kind", J::s(format!("{:?}", tcx.def_kind(did))))
                    .with("ty", ex.ty(t, env))
                    .with("s", J::s(format!("{}", t)))
                    .with("traits", J::Arr(trs)),
            );
        }
    }
    root.set("type_traits", J::Arr(type_traits));
    root.set("unsafe_blocks", J::Arr(unsafe_blocks));
    root.set("adts", J::Arr(adts));
    root.set("impls", J::Arr(impls));
    root.set("aliases", J::Arr(aliases));
    root.set("consts", J::Arr(consts));
    root.set("fns", J::Arr(fns));
}

fn mono_facts<'tcx>(ex: &mut Ex<'tcx>, root: &mut J) {
    let tcx = ex.tcx;
    let env = TypingEnv::fully_monomorphized();
    // roots: every non-generic `pub fn verif_root_*` of the local crate
    let mut roots = Vec::new();
    for id in tcx.hir_crate_items(()).definitions() {
        let did = id.to_def_id();
        if tcx.def_kind(did) != DefKind::Fn {
            continue;
        }
        let n = tcx.item_name(did).to_string();
        if !n.starts_with("verif_root_") {
            continue;
        }
        if tcx.generics_of(did).count() != 0 {
            continue;
        }
        let inst = Instance::mono(tcx, did);
        let iid = ex.enqueue(inst).expect("root has body");
        roots.push(J::obj().with("name", J::s(n)).with("inst", J::UInt(iid as u128)));
    }
    root.set("roots", J::Arr(roots));
    let mut bodies: Vec<J> = Vec::new();
    while let Some(inst) = ex.queue.pop_front() {
        let id = ex.inst_ids[&inst];
        let body = tcx.instance_mir(inst.def);
        let body = inst.instantiate_mir_and_normalize_erasing_regions(tcx, env, EarlyBinder::bind(body.clone()));
        let mut d = J::obj();
        d.set("id", J::UInt(id as u128));
        d.set("full", J::s(format!("{}", inst)));
        d.set("ik", J::s(inst_kind(&inst)));
        ex.fn_header(inst.def_id(), &mut d);
        let mut ga = Vec::new();
        let mut gs = Vec::new();
        for a in inst.args.iter() {
            if let Some(at) = a.as_type() {
                ga.push(ex.ty(at, env));
                gs.push(J::s(format!("{}", at)));
            } else if let Some(c) = a.as_const() {
                gs.push(J::s(format!("{}", c)));
            }
        }
        d.set("targs", J::Arr(ga));
        d.set("gargs", J::Arr(gs));
        if let InstanceKind::DropGlue(_, Some(t)) = inst.def {
            d.set("drop_ty", ex.ty(t, env));
        }
        let b = ex.body(&body, env);
        d.set("mir", b);
        while bodies.len() <= id {
            bodies.push(J::Null);
        }
        bodies[id] = d;
    }
    root.set("fns", J::Arr(bodies));
    let _ = DUMMY_SP;
}
