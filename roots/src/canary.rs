//! Engine canaries (never executed, nothing to do with /repo): tiny functions with a *known* verdict.  Every
//! `bad_*` function has a panic edge that some argument reaches; every `good_*` function has none.  On every run of
//! C20 the abstract interpreter must flag each `bad_*` and discharge each `good_*` (analysis/canary.py): a rule that
//! matches nothing, or an engine change that silently stops seeing a class of panic edge, fails the check instead of
//! passing vacuously.

pub fn verif_root_canary__bad_add(a: u8, b: u8) -> u8 {
    a + b
}
pub fn verif_root_canary__good_add(a: u8, b: u8) -> u8 {
    a.wrapping_add(b)
}
pub fn verif_root_canary__bad_mul(a: u16, b: u16) -> u16 {
    (a & 0x1ff) * (b & 0xff)
}
pub fn verif_root_canary__good_mul(a: u16, b: u16) -> u16 {
    (a & 0xff) * (b & 0xff)
}
pub fn verif_root_canary__bad_index(t: &[u8; 16], i: usize) -> u8 {
    t[i & 31]
}
pub fn verif_root_canary__good_index(t: &[u8; 16], i: usize) -> u8 {
    t[i & 15]
}
pub fn verif_root_canary__bad_shift(x: u32, s: u32) -> u32 {
    x << (s & 63)
}
pub fn verif_root_canary__good_shift(x: u32, s: u32) -> u32 {
    x << (s & 31)
}
pub fn verif_root_canary__bad_div(a: u32, b: u32) -> u32 {
    a / (b & 0xfe)
}
pub fn verif_root_canary__good_div(a: u32, b: u32) -> u32 {
    a / (b | 1)
}
pub fn verif_root_canary__bad_slice(d: &[u8]) -> &[u8] {
    &d[4..]
}
pub fn verif_root_canary__good_slice(d: &[u8]) -> &[u8] {
    if d.len() >= 4 {
        &d[4..]
    } else {
        d
    }
}
pub fn verif_root_canary__bad_unwrap(d: &[u8]) -> [u8; 4] {
    d.try_into().unwrap()
}
pub fn verif_root_canary__good_unwrap(d: &[u8; 8]) -> [u8; 4] {
    d[4..].try_into().unwrap()
}
pub fn verif_root_canary__bad_loop(d: &[u8]) -> u8 {
    let mut s = 0u8;
    for x in d {
        s += *x;
    }
    s
}
pub fn verif_root_canary__good_loop(d: &[u8]) -> u8 {
    let mut s = 0u8;
    for x in d {
        s = s.wrapping_add(*x);
    }
    s
}
// relational in the (unknown) length
pub fn verif_root_canary__bad_tail(d: &[u8]) -> u8 {
    if d.len() < 32 {
        0
    } else {
        d[d.len() - 32..][32]
    }
}
pub fn verif_root_canary__good_tail(d: &[u8]) -> u8 {
    if d.len() < 32 {
        0
    } else {
        d[d.len() - 32..][31]
    }
}
pub fn verif_root_canary__bad_copy(d: &mut [u8], s: &[u8; 16]) {
    if d.len() >= 16 {
        let n = d.len();
        d[n - 15..].copy_from_slice(s);
    }
}
pub fn verif_root_canary__good_copy(d: &mut [u8], s: &[u8; 16]) {
    if d.len() >= 16 {
        let n = d.len();
        d[n - 16..].copy_from_slice(s);
    }
}
pub fn verif_root_canary__bad_narrow(x: u32) -> u8 {
    u8::try_from(x & 0x1ff).unwrap()
}
pub fn verif_root_canary__good_narrow(x: u32) -> u8 {
    u8::try_from(x & 0xff).unwrap()
}
pub fn verif_root_canary__bad_debug_assert(x: usize) {
    debug_assert!(x % 16 == 0);
}
pub fn verif_root_canary__good_debug_assert(x: usize) {
    debug_assert!((x & !15) % 16 == 0);
}

// ---- canaries for the bit-level engine (analysis/bitform.py): bitsliced 3-bit maps with a known verdict for the
// S-box inverse lemma (analysis/c01.py pw_lemma): (pw_f, pw_f_inv) is an inverse pair, (pw_f, pw_f_notinv) is not,
// pw_notpure is not a position-wise boolean circuit.
pub fn verif_root_canary__pw_f(s: &mut [u32]) {
    let (a, b, c) = (s[0], s[1], s[2]);
    s[0] = a ^ (b & c);
    s[1] = b ^ c;
    s[2] = !c;
}
pub fn verif_root_canary__pw_f_inv(s: &mut [u32]) {
    let (a, b, c) = (s[0], s[1], !s[2]);
    let b0 = b ^ c;
    s[0] = a ^ (b0 & c);
    s[1] = b0;
    s[2] = c;
}
pub fn verif_root_canary__pw_f_notinv(s: &mut [u32]) {
    let (a, b, c) = (s[0], s[1], !s[2]);
    let b0 = b ^ c;
    s[0] = a ^ (b0 | c);
    s[1] = b0;
    s[2] = c;
}
pub fn verif_root_canary__pw_notpure(s: &mut [u32]) {
    let (a, b, c) = (s[0], s[1], s[2]);
    s[0] = a.rotate_left(1) ^ b;
    s[1] = b;
    s[2] = c;
}
