#!/usr/bin/env python3
"""Confirm seeded changes delivered by the mutation sub-agents and file them under /verif/seeded/.

For each /tmp/mut-out/<batch>/<k>/ : in a scratch worktree of /repo's *pristine seed commit*
  (a) demo passes on the pristine tree, (b) demo fails with the patch, (c) the existing suite
  passes with the patch.  Only then is the change kept (patch.diff, demo, meta.json + what was run).
usage: confirm_seeded.py <batch> [<batch>...]      e.g. C16a C19a
"""
import json, os, shutil, subprocess, sys, re

BASE = os.environ.get('SEED_BASE') or subprocess.check_output(['git', '-C', '/repo', 'rev-parse', '--short', 'HEAD'], text=True).strip()
# the commit the sub-agents worked from (batch a: 31aa1ea, before the four fix: commits; batch b: 2c400d7)
OUT = '/verif/seeded'


def sh(cmd, cwd, env=None, timeout=3600):
    e = dict(os.environ, CARGO_NET_OFFLINE='true')
    if env:
        e.update(env)
    r = subprocess.run(cmd, shell=True, cwd=cwd, env=e, stdout=subprocess.PIPE, stderr=subprocess.STDOUT, text=True,
                       timeout=timeout)
    return r.returncode, r.stdout


def suite_summary(out):
    ok = len(re.findall(r'^test result: ok', out, re.M))
    bad = len(re.findall(r'^test result: FAILED', out, re.M))
    return ok, bad


def confirm(batch, k):
    src = '/tmp/mut-out/%s/%s' % (batch, k)
    meta = json.load(open(os.path.join(src, 'meta.json')))
    wt = '/tmp/confirm/%s-%s' % (batch, k)
    shutil.rmtree(wt, ignore_errors=True)
    sh('git -C /repo worktree prune', '/')
    rc, o = sh('git -C /repo worktree add -f --detach %s %s' % (wt, BASE), '/')
    if rc:
        return dict(ok=False, why='worktree: ' + o[-500:])
    res = dict(batch=batch, k=k)
    try:
        demo_dst = os.path.join(wt, meta['demo_path_in_repo'])
        os.makedirs(os.path.dirname(demo_dst), exist_ok=True)
        shutil.copy(os.path.join(src, 'demo.rs'), demo_dst)
        cmd = meta['demo_cmd']
        env = {}
        m = re.match(r"""^RUSTFLAGS=(['"])(.*?)\1\s+(.*)$""", cmd)
        if m:
            env['RUSTFLAGS'] = m.group(2)
            cmd = m.group(3)
        rc1, o1 = sh(cmd, wt, env)
        res['pristine_demo_rc'] = rc1
        rc, o = sh('git apply %s' % os.path.join(src, 'patch.diff'), wt)
        if rc:
            return dict(ok=False, why='patch does not apply: ' + o[-300:], **res)
        rc2, o2 = sh(cmd, wt, env)
        res['patched_demo_rc'] = rc2
        res['patched_demo_tail'] = o2[-600:]
        os.remove(demo_dst)
        rc3, o3 = sh('cargo test --workspace --no-fail-fast --offline', wt)
        res['patched_suite_rc'] = rc3
        res['patched_suite'] = suite_summary(o3)
        res['ok'] = (rc1 == 0 and rc2 != 0 and rc3 == 0)
        res['ran'] = [cmd + ' (pristine: pass expected)', 'git apply patch.diff', cmd + ' (patched: fail expected)',
                      'cargo test --workspace --no-fail-fast --offline (patched: pass expected)']
        if env:
            res['env'] = env
    finally:
        sh('git -C /repo worktree remove --force %s' % wt, '/')
        shutil.rmtree(wt, ignore_errors=True)
    if res.get('ok'):
        d = os.path.join(OUT, '%s-%s' % (batch, k))
        os.makedirs(d, exist_ok=True)
        shutil.copy(os.path.join(src, 'patch.diff'), d)
        shutil.copy(os.path.join(src, 'demo.rs'), d)
        meta['confirmed'] = {kk: res[kk] for kk in ('pristine_demo_rc', 'patched_demo_rc', 'patched_suite_rc', 'patched_suite', 'ran')}
        if env:
            meta['confirmed']['env'] = env
        meta['breaks_property'] = meta.get('property')
        meta['base_commit'] = BASE
        json.dump(meta, open(os.path.join(d, 'meta.json'), 'w'), indent=1)
    return res


if __name__ == '__main__':
    os.makedirs('/tmp/confirm', exist_ok=True)
    for batch in sys.argv[1:]:
        for k in sorted(os.listdir('/tmp/mut-out/%s' % batch)):
            if not os.path.isdir('/tmp/mut-out/%s/%s' % (batch, k)) or not os.path.exists('/tmp/mut-out/%s/%s/meta.json' % (batch, k)):
                continue
            r = confirm(batch, k)
            print(batch, k, 'CONFIRMED' if r.get('ok') else 'REJECTED', {x: r[x] for x in r if x not in ('patched_demo_tail', 'ran')}, flush=True)
