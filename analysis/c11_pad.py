"""C11 rule R6 -- padding equivalence by Herbrand terms.

For CAST5 (lengths 11..=15, i.e. above 80 bits), CAST6 (16, 20, 24, 28) and Serpent (16..=31): the instance built by
`new_from_slice(k)` from a short key of symbolic bytes k[0..n) must have, field by field and element by element, the
*same terms* as the instance built by the fixed-size constructor `new` from the explicitly padded key
   CAST5 / CAST6:  k || 00 .. 00          Serpent:  k || 01 || 00 .. 00      (property text)
-- global value numbering; no key is enumerated.
"""
from facts import *
import equiv, engine
import terms as T
from values import *
from interp import State, Ptr
from ops import flatten

PAD = {
    'cast5::Cast5': (list(range(11, 16)), 16, lambda n: [0] * (16 - n)),
    'cast6::Cast6': ([16, 20, 24, 28], 32, lambda n: [0] * (32 - n)),
    'serpent::Serpent': (list(range(16, 32)), 32, lambda n: [1] + [0] * (31 - n)),
}


def value_terms(I, v, out, path=''):
    if isinstance(v, AInt):
        out.append((path, v.term if v.term is not None else (T.const(v.w, v.const) if v.const is not None else None)))
    elif isinstance(v, (Struct, Enum)):
        for i, x in enumerate(v.f):
            value_terms(I, x, out, '%s.%d' % (path, i))
    elif isinstance(v, Arr):
        for i, x in enumerate(v.e):
            value_terms(I, x, out, '%s[%d]' % (path, i))
    else:
        out.append((path, getattr(v, 'term', None)))


def run_rule(chk, cfgname, m):
    n_ok = 0
    with equiv.TermMode():
        for tyname, (lens, full, padf) in PAD.items():
            r_new = [(nm, i) for nm, info, i in m.roots_of(op='new') if pretty(info['ty']) == tyname]
            r_nfs = [(nm, i) for nm, info, i in m.roots_of(op='new_from_slice') if pretty(info['ty']) == tyname]
            if not r_new or not r_nfs:
                chk.fail_closed('R6-padding', '%s|%s' % (cfgname, tyname), 'constructors of %s not rooted' % tyname)
                continue
            for n in lens:
                key = '%s|%s|R6|len=%d' % (cfgname, tyname, n)
                engine._INTERPS.clear()
                I = engine.mk_interp(m, 30_000_000)
                ksyms = [topint(8, False, T.sym('k[%d]' % i, 8)) for i in range(n)]
                # short key through new_from_slice
                st = State()
                I.fresh += 1
                obj = ('P', 'key', I.fresh)
                st.mem[obj] = Arr(engine.u8_slice_type(I), ksyms)
                arg = Ptr(obj, (), I.usize(0), I.usize(n), None, None, False)
                status, r = engine.run(I, r_nfs[0][1], [arg], st)
                if status != 'ok' or not isinstance(r, Enum) or r.variant != 0:
                    chk.violation('R6-padding', key + '|short', '%s::new_from_slice(len=%d) did not return Ok (%s)' % (tyname, n, status))
                    continue
                a = []
                value_terms(I, r.f[0], a)
                # explicitly padded full-length key, through the same slice constructor
                st2 = State()
                I.fresh += 1
                obj2 = ('P', 'key', I.fresh)
                padded = ksyms + [cint(8, b) for b in padf(n)]
                st2.mem[obj2] = Arr(engine.u8_slice_type(I), padded)
                arg2 = Ptr(obj2, (), I.usize(0), I.usize(full), None, None, False)
                status, r2 = engine.run(I, r_nfs[0][1], [arg2], st2)
                if status != 'ok' or not isinstance(r2, Enum) or r2.variant != 0:
                    chk.fail_closed('R6-padding', key + '|padded', '%s::new_from_slice(len=%d): %s %s' % (tyname, full, status, str(r2)[:200]))
                    continue
                r2 = r2.f[0]
                b = []
                value_terms(I, r2, b)
                diff = [(pa, ta, tb) for (pa, ta), (pb, tb) in zip(a, b) if ta is None or ta is not tb]
                if len(a) != len(b) or diff:
                    d = diff[0] if diff else ('shape', None, None)
                    chk.violation('R6-padding', key,
                                  '%s: a %d-byte key and its explicitly padded %d-byte form do not yield the same cipher: field %s differs: %s' % (
                                      tyname, n, full, d[0], T.first_diff(d[1], d[2]) if diff else 'different shapes'))
                else:
                    n_ok += 1
                    chk.ok('R6-padding', key, dict(type=tyname, short_len=n, padded_len=full, compared_terms=len(a)) if n == lens[0] else None)
    return n_ok


def replace_bytes(v, bs):
    """same shape as v (Array<u8, N> wrapper) with the given bytes"""
    if isinstance(v, Struct):
        nz = [i for i, x in enumerate(v.f) if not (isinstance(x, Struct) and not x.f)]
        f = list(v.f)
        f[nz[0]] = replace_bytes(f[nz[0]], bs)
        return Struct(v.ty, f)
    if isinstance(v, Arr):
        assert len(v.e) == len(bs)
        return Arr(v.ty, bs)
    raise ValueError(v)
