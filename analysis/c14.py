"""C14 -- bcrypt (eksblowfish) key-setup primitives (clause level).

Decided structurally on the monomorphic MIR (feature `bcrypt`):
 P  `bc_encrypt(lr)` is the current state's Blowfish permutation applied to lr with the state left unchanged, and
    `bc_init_state()` returns the initial constants of `init_state()` -- decided on terms / values
    (c14_terms.delegation_by_terms); `bc_expand_key` is covered by rule X.  When the three bodies are one-line delegations
    (as they are today) that is recorded too, but the shape is not required.
 W  `salted_expand_key` reaches, inside /repo and possibly through helper functions, only blowfish code: `next_u32_wrap`
    and the very `encrypt` instance the ordinary API uses, and none of the other key-setup routines.
 X  (c14_terms.py, engine L3) for a symbolic state, key and salt, `salted_expand_key` leaves exactly the state of the
    reference ExpandKey(state, salt, key) -- key and salt cycled, salt words XORed into the running block before each
    of the 9 + 512 chained encryptions, entries written in order -- with the state's Blowfish permutation as an
    uninterpreted function of the *current* state contents; `bc_expand_key` leaves the reference state for the zero
    salt; `new_from_slice` is the plain expansion of the initial constants.  Because the state is symbolic, any sequence
    of steps composes (induction over the call history).
Not decided: that `encrypt` itself is the 16-round Blowfish permutation (conformance, C09), and key / salt lengths
that are not enumerated.
"""
from facts import *
import c14_terms

PAIRS = {'bc_init_state': 'init_state', 'bc_expand_key': 'expand_key', 'bc_encrypt': 'encrypt'}


def trace_param(body, local, depth=0):
    """which parameter does this local hold (through moves, copies and re-borrows)? returns param index or None"""
    if 1 <= local <= body['argc']:
        return local
    if depth > 8:
        return None
    defs = []
    for b in body['bbs']:
        for s in b['s']:
            if s[0] == '=' and s[1] == [local]:
                defs.append(s[2])
    if len(defs) != 1:
        return None
    rv = defs[0]
    if rv[0] == 'use' and rv[1][0] in ('cp', 'mv') and len(rv[1][1]) == 1:
        return trace_param(body, rv[1][1][0], depth + 1)
    if rv[0] in ('ref', 'raw') and len(rv[2]) == 2 and rv[2][1] == '*':
        return trace_param(body, rv[2][0], depth + 1)
    return None


def repo_calls(m, f):
    out = []
    for b in f['mir']['bbs']:
        t = b['t']
        if t['k'] == 'call' and 'f' in t and (t['f'].get('crate') in REPO_CRATES):
            out.append(t)
    return out


def run(chk, facts_by_config):
    chk.undecided += ['`encrypt` is the Blowfish permutation of the state (conformance)', 'key / salt lengths beyond those enumerated']
    chk.trusted += ['the rewrite rules of analysis/terms.py', 'the reference ExpandKey written from the property text (analysis/c14_terms.py)']
    import multiprocessing as mp
    pool = mp.Pool(min(16, os.cpu_count() or 4))
    for cfgname, F in facts_by_config.items():
        if 'bcrypt' not in F.meta['cfg']['features']:
            continue
        chk.configs.append(cfgname)
        m = F.mono
        byname = {}
        for f in m.fns:
            if f['crate'] == 'blowfish' and f.get('impl_self', '').startswith('blowfish::Blowfish') and 'impl_trait' not in f:
                byname.setdefault(f.get('name'), []).append(f)
        # instances used by the ordinary API of Blowfish<BigEndian>
        used = {}
        for op, want in (('new_from_slice', ('init_state', 'expand_key')), ('enc', ('encrypt',))):
            for name, info, inst in m.roots_of(op=op):
                if info['pub_path'] not in ('crate::X_Blowfish',):
                    continue
                for i in m.reachable(inst):
                    g = m.fn(i)
                    if g['crate'] == 'blowfish' and g.get('name') in want and 'impl_trait' not in g:
                        used.setdefault(g['name'], set()).add(i)
        n = 0
        for bc, target in PAIRS.items():
            key = '%s|blowfish::Blowfish<BE>|%s' % (cfgname, bc)
            fs = byname.get(bc, [])
            if len(fs) != 1:
                chk.fail_closed('P-pure-delegation', key, '%d instances of %s' % (len(fs), bc))
                continue
            f = fs[0]
            n += 1
            calls = repo_calls(m, f)
            allcalls = [b['t'] for b in f['mir']['bbs'] if b['t']['k'] == 'call']
            why = None
            if len(calls) != 1 or len(allcalls) != 1:
                why = 'it makes %d calls (%s)' % (len(allcalls), [callee_name(t).split('::')[-1] for t in allcalls])
            else:
                t = calls[0]
                if t['f'].get('name') != target:
                    why = 'it calls `%s` instead of `%s`' % (t['f'].get('name'), target)
                elif t['f'].get('inst') not in used.get(target, set()):
                    why = 'it calls an instance of `%s` that the ordinary Blowfish API does not use' % target
                else:
                    params = [trace_param(f['mir'], a[1][0]) if a[0] in ('cp', 'mv') and len(a[1]) == 1 else None for a in t['a']]
                    if params != list(range(1, f['mir']['argc'] + 1)):
                        why = 'its arguments are not its own parameters in order (%s)' % params
                    elif t['d'] != [0]:
                        # result moved into the return place?
                        ok = any(s[0] == '=' and s[1] == [0] and s[2][0] == 'use' and s[2][1][0] in ('cp', 'mv') and s[2][1][1] == t['d']
                                 for b in f['mir']['bbs'] for s in b['s'])
                        if not ok and m.ty(f['mir']['locals'][0]).get('size') != 0:
                            why = 'it does not return the result of the call'
            if why:
                # not in the one-call shape: decided semantically instead (c14_terms: bc_expand_key by rule X, bc_encrypt and
                # bc_init_state by delegation_by_terms), so this is information, not a verdict
                chk.extra.setdefault('not_a_one_line_delegation', []).append('%s: %s' % (bc, why))
            else:
                chk.ok('P-pure-delegation', key, dict(fn=bc, delegates_to=target, same_instance_as='KeyInit / encrypt_block'))
        # ---- W
        fs = byname.get('salted_expand_key', [])
        key = '%s|blowfish::Blowfish<BE>|salted_expand_key' % cfgname
        if len(fs) != 1:
            chk.fail_closed('W-salted-callees', key, '%d instances of salted_expand_key' % len(fs))
        else:
            f = fs[0]
            n += 1
            # transitively (helper functions extracted from the body are fine): inside /repo it reaches only blowfish code,
            # among it `next_u32_wrap` and the very `encrypt` instance the ordinary API uses -- and no other key-setup routine
            names = set()
            bad = []
            for i in m.reachable(f['id']):
                g = m.fn(i)
                if i == f['id'] or g['crate'] not in REPO_CRATES:
                    continue
                nm = g.get('name') or '{closure}'
                names.add(nm)
                if g['crate'] != 'blowfish':
                    bad.append('%s (crate %s)' % (nm, g['crate']))
                elif nm == 'encrypt' and 'impl_trait' not in g and i not in used.get('encrypt', set()):
                    bad.append('encrypt (another instance)')
                elif nm in ('expand_key', 'init_state', 'decrypt'):
                    bad.append(nm)
            if bad or not {'next_u32_wrap', 'encrypt'} <= names:
                chk.violation('W-salted-callees', key, 'salted_expand_key reaches %s inside /repo (expected next_u32_wrap and the ordinary encrypt, possibly through helpers; offending: %s)' % (sorted(names), bad))
            else:
                chk.ok('W-salted-callees', key, dict(fn='salted_expand_key', repo_callees=sorted(names)))
        chk.floor('instances', n, 'n.' + cfgname)
        if cfgname in ('x64-all', 'a64-all', 'x86-all'):
            nx = c14_terms.run_rule(chk, cfgname, F, pool)
            chk.floor('X-instances', nx, 'X.' + cfgname)
    pool.close()
