"""Running public roots under the abstract interpreter: argument construction, constructor results,
self-invariants, and site accounting shared by C11 / C18 / C20."""
import time
from facts import *
from interp import *
from values import *
import values


_INTERPS = {}


def mk_interp(m, budget=6_000_000):
    """one interpreter per fact base, reset between runs"""
    I = _INTERPS.get(id(m))
    if I is not None:
        return I.reset(budget)
    _INTERPS.clear()
    I = Interp(m, budget=budget)
    _INTERPS[id(m)] = I
    # the roots crate's `verif_unknown::<T>()`: any value of the destination type
    def unknown(I_, frame, st, args, callee):
        I.entry_state = st
        try:
            return I.top(I.cur_dest_ty, 'unk')
        finally:
            I.entry_state = None
    I.models['verif_roots::verif_unknown'] = unknown
    return I


def slice_arg(I, st, n, name='key', elem_w=8):
    """&[u8] of concrete length n (unknown content) or of abstract length (AInt)"""
    I.fresh += 1
    obj = ('P', name, I.fresh)
    sty = u8_slice_type(I)
    if isinstance(n, int):
        st.mem[obj] = Arr(sty, [topint(elem_w) for _ in range(n)])
        ln = I.usize(n)
    else:
        st.mem[obj] = ArrSum(sty, topint(elem_w), n)
        ln = n
    return Ptr(obj, (), I.usize(0), ln, None, None, False)


def u8_slice_type(I):
    if getattr(I, '_u8s', None) is not None:
        return I._u8s
    I._u8s = _u8_slice_type(I)
    return I._u8s


def _u8_slice_type(I):
    for i, d in enumerate(I.types):
        if d['k'] == 'slice' and I.types[d['e']].get('w') == 8 and I.types[d['e']]['k'] == 'int' and not I.types[d['e']]['sg']:
            return i
    return None


def run(I, inst, args, st):
    """returns (status, value) with status in ok / diverge / unsupported / budget"""
    try:
        I.entry_state = None
        r = I.call_fn(inst, args, st)
        return 'ok', r
    except Diverge:
        return 'diverge', None
    except Unsupported as e:
        return 'unsupported', str(e)
    except Budget:
        return 'budget', 'step budget exceeded'
    except JoinFail as e:
        return 'unsupported', 'join: %s' % e
    except RecursionError:
        return 'unsupported', 'python recursion limit'


def default_args(I, st, f, overrides=None):
    body = f['mir']
    names = dict((l, n) for l, n in body.get('names', []))
    args = []
    I.entry_state = st
    try:
        for i in range(1, body['argc'] + 1):
            if overrides and i in overrides:
                args.append(overrides[i])
            else:
                args.append(I.top(body['locals'][i], names.get(i, 'arg%d' % i)))
    finally:
        I.entry_state = None
    return args


def strip_terms(v):
    return v


def failed_sites(I):
    return [s for s in I.sites.values() if s.fails]
