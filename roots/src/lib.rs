//! Monomorphisation roots for the whole-program export.
//!
//! Nothing here is ever executed.  Each `verif_root__*` function merely *mentions*
//! one public operation of one concrete cipher type so that the driver's
//! instance walk reaches exactly the code an external user can reach.
//! `generated.rs` is produced by `analysis/gen_roots.py` from the per-crate facts
//! (every public concrete type and the traits it implements); `extras.rs` is the
//! hand-written remainder (generic types without an alias, inherent methods,
//! free functions).  The analysis cross-checks that no public function or cipher
//! type of /repo is left unrooted.
#![no_std]
#![allow(unused, non_snake_case, clippy::all)]

use cipher::inout::{InOut, InOutBuf};
use cipher::{
    array::{Array, ArraySize},
    Block, BlockCipherDecBackend, BlockCipherDecClosure, BlockCipherDecrypt, BlockCipherEncBackend,
    BlockCipherEncClosure, BlockCipherEncrypt, BlockSizeUser, ParBlocks,
};

/// A value the analysis knows nothing about.  Never executed; the abstract interpreter models a call to this
/// function as "any value of type T".
#[inline(never)]
pub fn verif_unknown<T>() -> T {
    loop {}
}

/// Probe closure: mentions every backend entry point for encryption, on unknown data, both with separate
/// input/output buffers and in place.
pub struct EncProbe<'i, 'o, BS: cipher::crypto_common::BlockSizes>(pub InOut<'i, 'o, Array<u8, BS>>);
impl<'i, 'o, BS: cipher::crypto_common::BlockSizes> BlockSizeUser for EncProbe<'i, 'o, BS> {
    type BlockSize = BS;
}
impl<'i, 'o, BS: cipher::crypto_common::BlockSizes> BlockCipherEncClosure for EncProbe<'i, 'o, BS> {
    #[inline(never)]
    fn call<B: BlockCipherEncBackend<BlockSize = BS>>(self, backend: &B) {
        backend.encrypt_block(self.0);
        let mut blk: Block<B> = verif_unknown();
        backend.encrypt_block(InOut::from(&mut blk));
        backend.encrypt_block_inplace(&mut blk);
        let pb_in: ParBlocks<B> = verif_unknown();
        let mut pb_out: ParBlocks<B> = verif_unknown();
        backend.encrypt_par_blocks(InOut::from((&pb_in, &mut pb_out)));
        backend.encrypt_par_blocks(InOut::from(&mut pb_out));
        backend.encrypt_par_blocks_inplace(&mut pb_out);
        if <B::ParBlocksSize as cipher::typenum::Unsigned>::USIZE > 1 {
            let mut tail: [Block<B>; 1] = verif_unknown();
            backend.encrypt_tail_blocks(InOutBuf::from(&mut tail[..]));
            backend.encrypt_tail_blocks_inplace(&mut tail[..]);
            // tails of two and three blocks (a hand-written tail routine typically distinguishes 1 / several / full width)
            // (the tail must be shorter than the parallel width: precondition of the cipher crate)
            if <B::ParBlocksSize as cipher::typenum::Unsigned>::USIZE > 2 {
                let mut tail2: [Block<B>; 2] = verif_unknown();
                backend.encrypt_tail_blocks(InOutBuf::from(&mut tail2[..]));
            }
            if <B::ParBlocksSize as cipher::typenum::Unsigned>::USIZE > 3 {
                let mut tail3: [Block<B>; 3] = verif_unknown();
                backend.encrypt_tail_blocks(InOutBuf::from(&mut tail3[..]));
            }
        }
        let mut empty: [Block<B>; 0] = [];
        backend.encrypt_tail_blocks(InOutBuf::from(&mut empty[..]));
    }
}

/// Probe closure: mentions every backend entry point for decryption.
pub struct DecProbe<'i, 'o, BS: cipher::crypto_common::BlockSizes>(pub InOut<'i, 'o, Array<u8, BS>>);
impl<'i, 'o, BS: cipher::crypto_common::BlockSizes> BlockSizeUser for DecProbe<'i, 'o, BS> {
    type BlockSize = BS;
}
impl<'i, 'o, BS: cipher::crypto_common::BlockSizes> BlockCipherDecClosure for DecProbe<'i, 'o, BS> {
    #[inline(never)]
    fn call<B: BlockCipherDecBackend<BlockSize = BS>>(self, backend: &B) {
        backend.decrypt_block(self.0);
        let mut blk: Block<B> = verif_unknown();
        backend.decrypt_block(InOut::from(&mut blk));
        backend.decrypt_block_inplace(&mut blk);
        let pb_in: ParBlocks<B> = verif_unknown();
        let mut pb_out: ParBlocks<B> = verif_unknown();
        backend.decrypt_par_blocks(InOut::from((&pb_in, &mut pb_out)));
        backend.decrypt_par_blocks(InOut::from(&mut pb_out));
        backend.decrypt_par_blocks_inplace(&mut pb_out);
        if <B::ParBlocksSize as cipher::typenum::Unsigned>::USIZE > 1 {
            let mut tail: [Block<B>; 1] = verif_unknown();
            backend.decrypt_tail_blocks(InOutBuf::from(&mut tail[..]));
            backend.decrypt_tail_blocks_inplace(&mut tail[..]);
            // tails of two and three blocks (a hand-written tail routine typically distinguishes 1 / several / full width)
            // (the tail must be shorter than the parallel width: precondition of the cipher crate)
            if <B::ParBlocksSize as cipher::typenum::Unsigned>::USIZE > 2 {
                let mut tail2: [Block<B>; 2] = verif_unknown();
                backend.decrypt_tail_blocks(InOutBuf::from(&mut tail2[..]));
            }
            if <B::ParBlocksSize as cipher::typenum::Unsigned>::USIZE > 3 {
                let mut tail3: [Block<B>; 3] = verif_unknown();
                backend.decrypt_tail_blocks(InOutBuf::from(&mut tail3[..]));
            }
        }
        let mut empty: [Block<B>; 0] = [];
        backend.decrypt_tail_blocks(InOutBuf::from(&mut empty[..]));
    }
}

include!("extra_types.rs");
include!("generated.rs");
include!("extras.rs");
pub mod canary;
