"""C16 -- dropping a cipher erases every key-dependent byte (zeroize feature).

Static rule (must-coverage of the drop glue): for every rooted cipher type T, in a
configuration built with `zeroize`, every leaf field of T whose type is not
zero-sized must be *wholly* covered on *every* path of T's drop glue by
  - `<X as Zeroize>::zeroize(&mut <whole field place>)` (impl from the zeroize /
    hybrid-array crates),
  - `zeroize_flat_type::<F>(p)` where p points at a place of exactly type F,
  - `ManuallyDrop::<A>::drop(&mut self.<union>.<arm>)` with A's own glue complete
    (and the arm chosen consistently with the constructor, rule U), or
  - the field's own drop glue (recursively complete).
Nothing is executed; the analysis is a forward must-dataflow over exported MIR.  When a field is not covered in one of
these shapes (element-wise loop, wipe through a re-sliced view), the verdict comes from the abstract interpreter instead
(wiped_by_interpretation): after the drop glue every non-ZST leaf of an all-unknown instance must be the constant zero.
"""
from facts import *

TRUSTED_ZEROIZE_CRATES = ('zeroize', 'hybrid_array')


class Glue:
    def __init__(self, mono, chk, cfgname):
        self.m = mono
        self.chk = chk
        self.cfg = cfgname
        self.memo = {}
        self.why = {}

    # ---- pointer map: local -> field path relative to *self (tuple of field indexes) or None
    def pointer_map(self, body, self_local=1):
        pm = {self_local: ()}
        assigned = {}
        for b in body['bbs']:
            for s in b['s']:
                if s[0] == '=' and len(s[1]) == 1:
                    assigned.setdefault(s[1][0], []).append(s[2])
            t = b['t']
            if t['k'] == 'call' and len(t['d']) == 1:
                assigned.setdefault(t['d'][0], []).append(('call',))
        changed = True
        while changed:
            changed = False
            for l, rvs in assigned.items():
                if l in pm or len(rvs) != 1:
                    continue
                rv = rvs[0]
                p = None
                if rv[0] in ('ref', 'raw'):
                    p = self.place_path(rv[2], pm)
                elif rv[0] == 'use' and rv[1][0] in ('cp', 'mv') and len(rv[1][1]) == 1:
                    p = pm.get(rv[1][1][0])
                elif rv[0] == 'cast' and rv[1].startswith(('PtrToPtr', 'PointerCoercion(MutToConstPointer')) \
                        and rv[2][0] in ('cp', 'mv') and len(rv[2][1]) == 1:
                    p = pm.get(rv[2][1][0])
                if p is not None:
                    pm[l] = p
                    changed = True
        return pm

    def place_path(self, place, pm):
        """place must be (*_a).f.g...  with _a a known pointer; returns path or None"""
        base = place[0]
        if base not in pm or len(place) < 2 or place[1] != '*':
            return None
        path = list(pm[base])
        for e in place[2:]:
            if e == '*':
                return None
            if e[0] == 'f':
                path.append(e[1])
            else:
                return None
        return tuple(path)

    def place_type(self, root_ty, path):
        t = root_ty
        for f in path:
            d = self.m.ty(t)
            if d['k'] == 'adt':
                if d['adt_kind'] == 'enum' and len(d['variants']) != 1:
                    return None
                t = d['variants'][0]['f'][f]['t']
            elif d['k'] == 'tuple':
                t = d['f'][f]
            else:
                return None
        return t

    # ---- coverage of one function body taking `&mut T` / `*mut T` as _1
    def body_cover(self, inst, root_ty):
        """set of field paths of root_ty that are wholly covered on every path entry->return"""
        f = self.m.fn(inst)
        body = f['mir']
        pm = self.pointer_map(body)
        n = len(body['bbs'])
        gen = [set() for _ in range(n)]
        for bi, b in enumerate(body['bbs']):
            t = b['t']
            if t['k'] == 'call' and 'f' in t:
                c = t['f']
                name = c.get('path') or c['decl']
                args = t['a']

                def argpath(i):
                    if i < len(args) and args[i][0] in ('cp', 'mv') and len(args[i][1]) == 1:
                        return pm.get(args[i][1][0])
                    return None

                if c.get('trait') == 'zeroize::Zeroize' and c['name'] == 'zeroize':
                    p = argpath(0)
                    if p is not None:
                        if c.get('crate') in TRUSTED_ZEROIZE_CRATES:
                            # the Self type of the call must be the whole place's type
                            pt = self.place_type(root_ty, p)
                            if pt is not None and c['targs'] and c['targs'][0] == pt:
                                gen[bi].add(p)
                        else:
                            self.chk.fail_closed('zeroize-impl', '%s|%s' % (self.cfg, pretty(f['full'])),
                                                 'Zeroize impl %s is not from the trusted zeroize/hybrid-array crates' % name)
                elif name == 'zeroize::zeroize_flat_type':
                    p = argpath(0)
                    if p is not None:
                        pt = self.place_type(root_ty, p)
                        if pt is not None and c['targs'] and c['targs'][0] == pt:
                            gen[bi].add(p)
                elif name.startswith('core::mem::manually_drop::ManuallyDrop::<T>::drop') or \
                        name == 'core::mem::manually_drop::ManuallyDrop::<T>::drop':
                    p = argpath(0)
                    if p is not None and c.get('targs'):
                        inner = c['targs'][0]
                        if self.type_complete(inner):
                            pt = self.place_type(root_ty, p[:-1])
                            # a union arm: covering the live arm covers the union storage that was ever written
                            if pt is not None and self.m.ty(pt)['k'] == 'adt' and self.m.ty(pt)['adt_kind'] == 'union':
                                gen[bi].add(p[:-1])
                            else:
                                gen[bi].add(p)
                elif c.get('trait') == 'core::ops::drop::Drop' and c['name'] == 'drop':
                    # the shim calling <T as Drop>::drop(&mut *_1)
                    p = argpath(0)
                    if p is not None and c.get('inst') is not None:
                        pt = self.place_type(root_ty, p)
                        if pt is not None:
                            for q in self.body_cover(c['inst'], pt):
                                gen[bi].add(p + q)
            elif t['k'] == 'drop':
                p = self.place_path(t['p'], pm)
                if p is not None and self.type_complete(t['ty']):
                    gen[bi].add(p)
        # forward must analysis
        g = cfg(body)
        IN = [None] * n
        IN[0] = frozenset()
        work = [0]
        while work:
            v = work.pop()
            out = frozenset(IN[v] | gen[v])
            for w in g[v]:
                nw = out if IN[w] is None else (IN[w] & out)
                if nw != IN[w]:
                    IN[w] = nw
                    work.append(w)
        rets = return_blocks(body)
        res = None
        for r in rets:
            if IN[r] is None:
                continue
            out = IN[r] | gen[r]
            res = out if res is None else (res & out)
        return res or frozenset()

    def is_zst(self, t):
        return self.m.ty(t).get('size') == 0

    def type_complete(self, t):
        """does dropping a value of type t wipe every non-ZST leaf of it?"""
        if t in self.memo:
            return self.memo[t]
        self.memo[t] = False  # cycle guard
        miss = self.missing(t)
        self.memo[t] = not miss
        self.why[t] = miss
        return not miss

    def glue_of(self, t):
        d = self.m.ty(t)
        key = 'core::ptr::drop_in_place::<%s>' % d['s']
        for f in self.m.fns:
            if f['ik'] == 'DropGlue' and f.get('drop_ty') == t:
                return f['id']
        return None

    def missing(self, t):
        """list of (field path names) not covered by the drop glue of t"""
        d = self.m.ty(t)
        if self.is_zst(t):
            return []
        g = self.glue_of(t)
        covered = self.body_cover(g, t) if g is not None else frozenset()
        miss = []

        def walk(ty, path, names):
            if self.is_zst(ty):
                return
            for k in range(len(path) + 1):
                if tuple(path[:k]) in covered:
                    return
            td = self.m.ty(ty)
            if td['k'] == 'adt' and td['adt_kind'] == 'struct':
                for i, fd in enumerate(td['variants'][0]['f']):
                    walk(fd['t'], path + [i], names + [fd['name']])
                return
            if td['k'] == 'tuple':
                for i, ft in enumerate(td['f']):
                    walk(ft, path + [i], names + [str(i)])
                return
            miss.append('.'.join(names) or '<self>')

        walk(t, [], [])
        return miss


def wiped_by_interpretation(m, G, t):
    """run the drop glue of type t on an instance of unknowns; returns the list of leaf paths that are not the constant zero
    afterwards, or None if the glue cannot be interpreted"""
    import engine
    from interp import State, Ptr
    from values import AInt, Struct, Arr, Enum
    g = G.glue_of(t)
    if g is None:
        return None
    try:
        engine._INTERPS.clear()
        I = engine.mk_interp(m, 20_000_000)
        st = State()
        I.fresh += 1
        obj = ('P', 'victim', I.fresh)
        st.mem[obj] = I.top(t)
        status, r = engine.run(I, g, [Ptr(obj, (), None, None, None, None, True)], st)
        if status != 'ok' or engine.failed_sites(I):
            return None
        bad = []

        def walk(v, path):
            if isinstance(v, AInt):
                if v.const != 0:
                    bad.append(path)
            elif isinstance(v, (Struct, Enum)):
                for i, x in enumerate(v.f):
                    walk(x, path + '.%d' % i)
            elif isinstance(v, Arr):
                for i, x in enumerate(v.e):
                    walk(x, path + '[%d]' % i)
            else:
                sz = m.ty(getattr(v, 'ty', None)).get('size') if getattr(v, 'ty', None) is not None else None
                if sz != 0:
                    bad.append(path + ':' + type(v).__name__)
        walk(st.mem[obj], '')
        return bad
    except Exception:
        return None
    finally:
        engine._INTERPS.clear()


def run(chk, facts_by_config):
    for cfgname, F in facts_by_config.items():
        if 'zeroize' not in F.meta['cfg']['features']:
            continue
        chk.configs.append(cfgname)
        m = F.mono
        G = Glue(m, chk, cfgname)
        n_types = 0
        for name, info, inst in m.roots_of(op='drop'):
            root = m.fn(inst)
            drops = [t for (_b, t, _c) in m.callees(root) if t['k'] == 'drop']
            tyname = pretty(info['ty'])
            if len(drops) != 1:
                chk.fail_closed('drop-root', '%s|%s' % (cfgname, tyname), 'drop root has %d drop terminators' % len(drops))
                continue
            t = drops[0]['ty']
            n_types += 1
            miss = G.missing(t)
            how = 'must-coverage dataflow'
            if miss:
                # the wipe is not in a shape the place-coverage rule recognises (an element-wise loop, a wipe through
                # as_mut_slice(), ...): decide it with the abstract interpreter instead -- the drop glue is run on an
                # instance every leaf of which is an unknown, and afterwards every non-ZST leaf must be the constant zero
                still = wiped_by_interpretation(m, G, t)
                if still is not None and not still:
                    miss, how = [], 'abstract interpretation of the drop glue: every leaf is the constant 0 afterwards'
            traits = [x for x in m.cipher_types if x['ty'] == info['ty']]
            zod = bool(traits) and 'zeroize::ZeroizeOnDrop' in traits[0]['traits']
            if miss:
                for fld in miss:
                    chk.violation('field-coverage', '%s|%s|field-coverage|%s' % (cfgname, tyname, fld),
                                  '%s: field `%s` is not wholly zeroized on every path of the drop glue (config %s)'
                                  % (tyname, fld, cfgname), dict(type=tyname, field=fld, config=cfgname))
            else:
                chk.ok('field-coverage', '%s|%s' % (cfgname, tyname),
                       dict(type=tyname, config=cfgname, size=m.ty(t).get('size'), decided_by=how,
                            fields=[f['name'] for f in m.ty(t)['variants'][0]['f']] if m.ty(t)['k'] == 'adt' else []))
            if zod:
                chk.ok('zeroize-on-drop-marker', '%s|%s' % (cfgname, tyname))
            else:
                chk.violation('zeroize-on-drop-marker', '%s|%s|zeroize-on-drop-marker' % (cfgname, tyname),
                              '%s does not implement ZeroizeOnDrop although built with the zeroize feature' % tyname)
        chk.floor('field-coverage', n_types, 'types.' + cfgname)
